// @module config::h
// C19 (a)  quorum arithmetic of the cluster orchestrator: `quorum_sanity_check`, `Config::update_quorum`
// (sliced verbatim from worterbuch-cluster-orchestrator/src/config.rs).
// Symbolic: number of configured peers (all values <= 4096), configured quorum (any usize).
use crate::{stub_capture_handler, stub_format};

const MAXPEERS: usize = 4096;
/// a slice of `n` (<= MAXPEERS) peers whose elements are never touched - the function only asks for the
/// length; the buffer is allocated but not initialised
fn peers_of_len(n: usize) -> &'static [PeerInfo] {
    let v: Vec<PeerInfo> = Vec::with_capacity(MAXPEERS);
    let p = v.as_ptr();
    core::mem::forget(v);
    unsafe { core::slice::from_raw_parts(p, n) }
}

// @h props=C19 tier=quick cap=300 desc="default quorum: for every number of configured peers the quorum is a strict majority of all nodes and not flagged too low" bounds="peers.len() <= 4096"
#[kani::proof]
#[kani::unwind(3)]
#[kani::stub(std::fmt::format, stub_format)]
#[kani::stub(::miette::eyreish::capture_handler, stub_capture_handler)]
fn c19_quorum_default() {
    let n: usize = kani::any();
    kani::assume(n <= MAXPEERS);
    let r = quorum_sanity_check(None, peers_of_len(n));
    let nodes = n + 1;
    match &r {
        Ok((q, too_low)) => {
            assert!(2 * *q > nodes, "C19: the default quorum is a strict majority of the configured nodes");
            assert!(*q <= nodes, "C19: the default quorum can be reached");
            assert!(*q == nodes / 2 + 1, "C19: the default quorum is n/2 + 1");
            assert!(!*too_low, "C19: the default quorum is never flagged as too low");
        }
        Err(_) => assert!(false, "C19: the default quorum is always accepted"),
    }
    kani::cover!(n == 0);
    kani::cover!(n == 4);
    core::mem::forget(r);
}

// @h props=C19 tier=quick cap=300 desc="configured quorum: accepted iff it does not exceed the number of nodes, returned unchanged, flagged too low iff below n/2+1" bounds="peers.len() <= 4096; quorum any usize"
#[kani::proof]
#[kani::unwind(3)]
#[kani::stub(std::fmt::format, stub_format)]
#[kani::stub(::miette::eyreish::capture_handler, stub_capture_handler)]
fn c19_quorum_configured() {
    let n: usize = kani::any();
    kani::assume(n <= MAXPEERS);
    let q0: usize = kani::any();
    let r = quorum_sanity_check(Some(q0), peers_of_len(n));
    let nodes = n + 1;
    match &r {
        Ok((q, too_low)) => {
            assert!(q0 <= nodes, "C19: a quorum that exceeds the number of nodes is rejected");
            assert!(*q == q0, "C19: a configured quorum is used as configured");
            assert!(*too_low == (q0 < nodes / 2 + 1), "C19: a quorum below the strict majority is flagged");
        }
        Err(_) => assert!(q0 > nodes, "C19: only an unreachable quorum is rejected"),
    }
    kani::cover!(r.is_ok());
    kani::cover!(r.is_err());
    core::mem::forget(r);
}

pub(crate) fn mk_config(quorum: usize, quorum_configured: Option<usize>) -> Config {
    Config {
        node_id: "me".to_owned(),
        heartbeat_interval: Duration::from_millis(100),
        heartbeat_min_timeout: 500,
        raft_port: 1,
        quorum,
        quorum_too_low: false,
        sync_port: 2,
        worterbuch_executable: String::new(),
        stats_port: 3,
        data_dir: PathBuf::new(),
        config_scan_interval: 5,
        suicide_on_split_brain: true,
        priority: None,
        quorum_configured,
    }
}
pub(crate) fn mk_peer(id: &str) -> PeerInfo {
    PeerInfo {
        node_id: id.to_owned(),
        address: std::net::IpAddr::V4(std::net::Ipv4Addr::new(127, 0, 0, 1)),
        raft_port: 1,
        sync_port: 2,
        priority: None,
        suicide_on_split_brain: true,
    }
}
pub(crate) fn mk_peers4() -> Peers {
    let mut v = Vec::with_capacity(4);
    v.push(mk_peer("p1"));
    v.push(mk_peer("p2"));
    v.push(mk_peer("p3"));
    v.push(mk_peer("p4"));
    Peers(v)
}

// @h props=C19 tier=quick cap=600 desc="Config::update_quorum with 4 configured peers: stores the checked quorum, any configured value" bounds="4 peers; configured quorum any"
#[kani::proof]
#[kani::unwind(6)]
#[kani::stub(std::fmt::format, stub_format)]
#[kani::stub(::miette::eyreish::capture_handler, stub_capture_handler)]
fn c19_update_quorum() {
    let has: bool = kani::any();
    let q0: usize = kani::any();
    let mut c = mk_config(99, if has { Some(q0) } else { None });
    let peers = mk_peers4();
    let r = c.update_quorum(&peers);
    if r.is_ok() {
        if has {
            assert!(c.quorum == q0 && q0 <= 5, "C19: configured quorum taken over only if reachable");
            assert!(c.quorum_too_low == (q0 < 3), "C19: too-low flag");
        } else {
            assert!(c.quorum == 3 && !c.quorum_too_low, "C19: default quorum of 5 nodes is 3");
        }
    } else {
        assert!(has && q0 > 5, "C19: only an unreachable quorum is rejected");
        assert!(c.quorum == 99, "C19: a rejected update leaves the old quorum in place");
    }
    kani::cover!(r.is_ok());
    core::mem::forget(r);
    core::mem::forget(peers);
    core::mem::forget(c);
}
