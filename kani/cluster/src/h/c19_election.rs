// @module election::h
// C19 (b)  vote counting of a running election round: Election::{process_peer_election_message,
// process_vote_response, is_part_of_cluster} of the real election.rs (de-sugared).
// 4 configured peers p1..p4 (+ this node = 5 nodes). The sequence of senders is concrete per harness,
// the quorum (1..=5) and the number of messages processed are chosen by the solver.
use crate::config::h::{mk_config, mk_peers4};
use crate::{stub_capture_handler, stub_format, stub_mu_write};

const P1: u8 = 1;
const P2: u8 = 2;
const P3: u8 = 3;
const P4: u8 = 4;
const STRANGER: u8 = 9;
const ME: u8 = 0;
const HB_REQ: u8 = 20; // heartbeat request from p2 (someone claims to be leader)
const HB_RESP: u8 = 21; // heartbeat response from p3

fn name(x: u8) -> String {
    match x {
        ME => "me".to_owned(),
        P1 => "p1".to_owned(),
        P2 => "p2".to_owned(),
        P3 => "p3".to_owned(),
        P4 => "p4".to_owned(),
        _ => "zz".to_owned(),
    }
}
fn msg(x: u8) -> PeerMessage {
    match x {
        HB_REQ => PeerMessage::Heartbeat(Heartbeat::Request(HeartbeatRequest { node_id: name(P2) })),
        HB_RESP => PeerMessage::Heartbeat(Heartbeat::Response(crate::HeartbeatResponse { node_id: name(P3) })),
        _ => PeerMessage::Vote(Vote::Response(VoteResponse { node_id: name(x) })),
    }
}
fn counts(x: u8) -> bool {
    x >= P1 && x <= P4
}

/// feed `seq` (concrete) into a running round; reference = number of DISTINCT CONFIGURED peers seen so far
/// (the quorum is fixed to 3 - the default of 5 nodes - in the sequence harnesses: a symbolic quorum forks
/// every later step, and a top-level split over 4 quorums runs out of memory; the full range of quorum and
/// vote count is covered by the one-step harness `c19_vote_step_symbolic` below)
fn c19_count(seq: [u8; 4]) {
    c19_count_q(seq, 3)
}
fn c19_count_q(seq: [u8; 4], q: usize) {
    let subsys = tosub::SubsystemHandle;
    let mut socket = crate::mk_socket();
    let mut config = mk_config(q, None);
    let mut peers = mk_peers4();
    let mut election = Election::new(&subsys, &mut socket, &mut config, &mut peers, Priority(5));
    election.votes_in_my_favor = 1; // the node voted for itself (election_round)
    let mut open: Vec<String> = Vec::with_capacity(4);
    open.push(name(P1));
    open.push(name(P2));
    open.push(name(P3));
    open.push(name(P4));
    let mut seen = [false; 5];
    let mut distinct = 0usize;
    let mut leader_at: Option<usize> = None;
    let mut i = 0;
    while i < 4 {
        let r = aw!(election.process_peer_election_message(Some(msg(seq[i])), &mut open));
        if counts(seq[i]) && !seen[seq[i] as usize] {
            seen[seq[i] as usize] = true;
            distinct += 1;
        }
        let became_leader = matches!(&r, Ok(Some(ControlFlow::Break(ElectionOutcome::Leader))));
        let nothing = matches!(&r, Ok(None));
        core::mem::forget(r);
        // leader role exactly when own vote + distinct configured peers' votes reach the quorum
        if 1 + distinct >= q && counts(seq[i]) && leader_at.is_none() && became_leader {
            leader_at = Some(i);
        }
        assert!(became_leader == (1 + distinct >= q && counts(seq[i]) && election.votes_in_my_favor == 1 + distinct),
            "C19: the node becomes leader only with votes of enough DISTINCT CONFIGURED peers; duplicates, strangers and heartbeats never count");
        assert!(election.votes_in_my_favor == 1 + distinct, "C19: the vote count equals own vote + distinct configured voters");
        if became_leader {
            break;
        }
        assert!(nothing, "C19: messages that do not complete the quorum leave the round running");
        i += 1;
    }
    kani::cover!(leader_at.is_some() || q > 1 + distinct);
    core::mem::forget(open);
    core::mem::forget(election);
}
macro_rules! c19h {
    ($name:ident, $body:expr) => {
        #[kani::proof]
        #[kani::unwind(6)]
        #[kani::stub(std::fmt::format, stub_format)]
        #[kani::stub(::miette::eyreish::capture_handler, stub_capture_handler)]
        #[kani::stub(std::mem::MaybeUninit::write, stub_mu_write)]
        fn $name() {
            $body
        }
    };
}
// @h props=C19 tier=quick cap=900 desc="votes of four distinct configured peers, quorum 3: leader exactly when 1 + distinct votes reach the quorum" bounds="5 nodes; 4 messages; quorum 3"
c19h!(c19_count_distinct, c19_count([P1, P2, P3, P4]));
// @h props=C19 tier=quick cap=900 desc="the same peer votes four times: counted once, never leader for quorum > 2" bounds="5 nodes; 4 messages; quorum 3"
c19h!(c19_count_duplicates, c19_count([P1, P1, P1, P1]));
// @h props=C19 tier=quick cap=900 desc="votes of strangers and of the node's own id between real votes do not count" bounds="5 nodes; 4 messages; quorum 3"
c19h!(c19_count_strangers, c19_count([STRANGER, P2, ME, P3]));
// @h props=C19 tier=quick cap=900 desc="heartbeat requests / responses during the round neither count as votes nor end the round" bounds="5 nodes; 4 messages; quorum 3"
c19h!(c19_count_heartbeats, c19_count([HB_REQ, P4, HB_RESP, P4]));
// @h props=C19 tier=thorough cap=900 desc="duplicate, stranger, distinct mixed" bounds="5 nodes; 4 messages; quorum 3"
c19h!(c19_count_mixed, c19_count([P3, P3, STRANGER, P1]));

// One vote from an ARBITRARY state of the round: own/collected votes v and quorum q are any usize, the set of
// peers that may still vote is any subset of the four configured peers (solver-chosen). Inductive step.
// @h props=C19 tier=quick cap=900 desc="one vote response from an arbitrary round state (votes so far and quorum: any usize; still-open voters: any subset): counted iff the sender is configured and has not voted yet; leader iff the new count reaches the quorum" bounds="4 peers; votes, quorum full range"
c19h!(c19_vote_step_symbolic, {
    let q: usize = kani::any();
    let v: usize = kani::any();
    kani::assume(v < usize::MAX);
    let open_mask: u8 = kani::any();
    kani::assume(open_mask < 16);
    let sender: u8 = kani::any();
    kani::assume(sender == P1 || sender == P2 || sender == STRANGER);
    // state construction per (mask, sender) branch would be 48 branches; the open list always contains p3/p4
    // according to the mask's upper bits and p1/p2 according to the lower bits - built with concrete pushes
    let subsys = tosub::SubsystemHandle;
    let mut socket = crate::mk_socket();
    let mut config = mk_config(q, None);
    let mut peers = mk_peers4();
    let mut election = Election::new(&subsys, &mut socket, &mut config, &mut peers, Priority(5));
    election.votes_in_my_favor = v;
    let p1_open = open_mask & 1 != 0;
    let p2_open = open_mask & 2 != 0;
    let mut open: Vec<String> = Vec::with_capacity(4);
    if p1_open { open.push(name(P1)); }
    if p2_open { open.push(name(P2)); }
    let was_open = (sender == P1 && p1_open) || (sender == P2 && p2_open);
    let vote = if sender == P1 { VoteResponse { node_id: name(P1) } } else if sender == P2 { VoteResponse { node_id: name(P2) } } else { VoteResponse { node_id: name(STRANGER) } };
    let r = aw!(election.process_vote_response(vote, &mut open));
    let leader = matches!(&r, Ok(Some(ControlFlow::Break(ElectionOutcome::Leader))));
    core::mem::forget(r);
    if was_open {
        assert!(election.votes_in_my_favor == v + 1, "C19: a configured peer that has not voted yet adds exactly one vote");
        assert!(leader == (v + 1 >= q), "C19: leader iff the count now reaches the quorum");
        assert!(!open.contains(&name(sender)), "C19: the voter can not vote again in this round");
    } else {
        assert!(election.votes_in_my_favor == v && !leader, "C19: duplicate, unsolicited or foreign votes never count");
    }
    kani::cover!(leader);
    kani::cover!(was_open && !leader);
    core::mem::forget(open);
    core::mem::forget(election);
});

// @h props=C19 tier=quick cap=600 desc="is_part_of_cluster: own id and configured peers yes, anything else no" bounds="4 peers; 6 names"
c19h!(c19_membership, {
    let subsys = tosub::SubsystemHandle;
    let mut socket = crate::mk_socket();
    let mut config = mk_config(3, None);
    let mut peers = mk_peers4();
    let election = Election::new(&subsys, &mut socket, &mut config, &mut peers, Priority(5));
    assert!(election.is_part_of_cluster("me") && election.is_part_of_cluster("p1") && election.is_part_of_cluster("p4"), "C19: own id and configured peers are members");
    assert!(!election.is_part_of_cluster("zz") && !election.is_part_of_cluster("") && !election.is_part_of_cluster("p"), "C19: foreign ids are not members");
    kani::cover!(true);
    core::mem::forget(election);
});
