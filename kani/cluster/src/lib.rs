//! Harness crate "cluster": items of worterbuch-cluster-orchestrator sliced verbatim (gen/slice.py) and
//! election.rs as a whole (de-sugared, gen/deasync.py), against the environment models; stand-ins for
//! tosub::SubsystemHandle, rand, utils::support_vote and the timestamp file.
#![allow(dead_code, unused_imports, unused_variables, unused_mut, clippy::all)]
macro_rules! model_prelude {
    () => {
        use tokio::Now as _;
    };
}
macro_rules! csrc {
    ("lib_types.rs") => { include!("/verif/kani/cluster/gen/lib_types.rs"); };
    ("config_items.rs") => { include!("/verif/kani/cluster/gen/config_items.rs"); };
    ("election.rs") => { include!("/verif/kani/cluster/gen/election.rs"); };
}
macro_rules! aw {
    ($e:expr) => { $e };
}
pub type R<T> = T;
pub fn ret<T>(t: T) -> T {
    t
}
pub type PendingFut = tokio::Pending;
pub fn pending_fut() -> PendingFut {
    tokio::Pending
}
pub fn mk_socket() -> tokio::net::UdpSocket {
    tokio::net::UdpSocket
}
include!("/verif/kani/cluster/src/body.rs");

#[cfg(kani)]
#[kani::proof]
fn zz_nothing() {
    let x: u64 = kani::any();
    assert!(x == x);
}
