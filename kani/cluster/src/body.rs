use serde::{Deserialize, Serialize};
use std::{
    cmp::Ordering,
    net::{IpAddr, SocketAddr},
    path::Path,
};
model_prelude!();

csrc!("lib_types.rs");

/// stubs (see kani/core/src/h/util.rs)
pub(crate) fn stub_format(_args: core::fmt::Arguments<'_>) -> String {
    String::new()
}
pub(crate) struct NullHandler;
impl miette::ReportHandler for NullHandler {
    fn debug(&self, _e: &dyn miette::Diagnostic, _f: &mut core::fmt::Formatter<'_>) -> core::fmt::Result {
        Ok(())
    }
}
pub(crate) fn stub_capture_handler(_error: &(dyn miette::Diagnostic + 'static)) -> Box<dyn miette::ReportHandler> {
    Box::new(NullHandler)
}
pub(crate) fn stub_mu_write<T>(this: &mut core::mem::MaybeUninit<T>, val: T) -> &mut T {
    let p = this.as_mut_ptr();
    unsafe {
        p.write(val);
        &mut *p
    }
}

/// stand-in: no timestamp file
pub fn load_millis_since_active(_path: &Path) -> R<Option<i64>> {
    ret(None)
}
/// stand-in for the `rand` crate (only used by Config::election_timeout, which no harness calls)
pub mod rand {
    pub fn random<T: Default>() -> T {
        T::default()
    }
}
/// stand-in for tosub::SubsystemHandle (shutdown is never requested)
pub mod tosub {
    pub struct SubsystemHandle;
    impl SubsystemHandle {
        pub fn shutdown_requested(&self) -> crate::PendingFut {
            crate::pending_fut()
        }
        pub fn is_shut_down(&self) -> bool {
            false
        }
    }
}
pub mod utils {
    use crate::{VoteRequest, config::{Config, Peers}};
    use miette::Result;
    use tokio::net::UdpSocket;
    /// stand-in for utils::support_vote: counts the votes this node has given
    pub static mut VOTES_GIVEN: usize = 0;
    pub fn support_vote(_vote: VoteRequest, _config: &Config, _socket: &UdpSocket, _peers: &Peers) -> crate::R<Result<()>> {
        unsafe { VOTES_GIVEN += 1 };
        crate::ret(Ok(()))
    }
}
pub mod config {
    use super::PeerInfo;
    use crate::{Priority, load_millis_since_active, rand};
    use miette::{Context, IntoDiagnostic, Result, miette};
    use std::{net::SocketAddr, path::PathBuf, time::Duration};
    model_prelude!();
    use tracing::{debug, error, info, warn};
    csrc!("config_items.rs");

    #[cfg(any(kani, feature = "vreplay"))]
    pub(crate) mod h {
        use super::*;
        include!("/verif/kani/cluster/src/h/c19_quorum.rs");
    }
}
pub mod election {
    use crate::tosub;
    model_prelude!();
    csrc!("election.rs");

    #[cfg(any(kani, feature = "vreplay"))]
    mod h {
        use super::*;
        include!("/verif/kani/cluster/src/h/c19_election.rs");
    }
}

