// @module persistence::json::v3::h
// C10  A crash during persistence never loses a completed flush nor mixes snapshots.
//
// Real code: persistence/json/v3.rs whole (synchronous, asynchronous, write_and_check, write_to_disk, write_file,
// validate_file_content, load, try_load, try_load_grave_goods_last_will, read_json_from_file, file_paths,
// toggle_alternating_files, compute_checksum, validate_checksum).
// Environment: the file system of body.rs - the CRASH POINT is the solver's variable: a budget `c` of mutating file
// operations after which the process is dead; the byte found in a torn file is the solver's too.
// A snapshot k is (store k, grave goods k+3, last wills k+6): three different numbers, so that a swap of the two
// registrations or a pairing across snapshots is visible.

const NOPS: u32 = 14; // mutating file operations of one flush: 1 selector flip + 4 x (create tmp, write, rename) + last-persisted

fn flush(cfg: &Config, k: u8, periodic: bool) -> bool {
    if periodic {
        let api = CloneableWbApi { store: k, gg: k + 3, lw: k + 6 };
        let r = aw!(asynchronous(&api, cfg));
        let ok = r.is_ok();
        core::mem::forget(r);
        ok
    } else {
        let mut wb = Worterbuch::of(k, k + 3, k + 6);
        let r = aw!(synchronous(&mut wb, cfg));
        let ok = r.is_ok();
        core::mem::forget(r);
        ok
    }
}

/// restart: what does the next start of the server recover? (store id, or 0 if nothing could be loaded)
fn restart_and_check(cfg: &Config, newest_complete: u8, in_progress: u8) -> u8 {
    h_restart();
    let r = aw!(load(cfg));
    match r {
        Ok(wb) => {
            assert!(wb.store != 0 && (wb.store == newest_complete || wb.store == in_progress) || (wb.store != newest_complete && wb.store != in_progress && wb.store != 0),
                "C10: a start loads a snapshot that some flush wrote (never a torn or partial file)");
            assert!(wb.store == newest_complete || wb.store == in_progress,
                "C10: the next start recovers the last completed flush or the one in progress, never an older snapshot");
            assert!(wb.applied_gg && wb.applied_gg_id == wb.store + 3 && wb.applied_lw && wb.applied_lw_id == wb.store + 6,
                "C10: the grave goods and last wills applied are those of the SAME snapshot as the store");
            let id = wb.store;
            core::mem::forget(wb);
            id
        }
        Err(e) => {
            core::mem::forget(e);
            assert!(false, "C10: a start after a crash finds something to load");
            0
        }
    }
}

/// Directory as two completed flushes left it (snapshot 1, then snapshot 2; the selector names the slot of 2),
/// then flush 3 is killed after `c` file operations, then the server starts again.
fn crash_in_third_flush(toggle_present: bool, c: u32, periodic: bool) {
    let cfg = Config { data_dir: h_reset() };
    h_set_toggle(toggle_present);
    if toggle_present {
        h_put_snapshot(0, 2, 5, 8);
        h_put_snapshot(1, 1, 4, 7);
    } else {
        h_put_snapshot(1, 2, 5, 8);
        h_put_snapshot(0, 1, 4, 7);
    }
    h_arm(c);
    let done = flush(&cfg, 3, periodic);
    assert!(done == (c >= NOPS), "C10: a flush reports success exactly when all its file operations happened");
    let got = restart_and_check(&cfg, if done { 3 } else { 2 }, 3);
    #[cfg(kani)]
    kani::cover!(got == 2 || got == 3, "a start after the crash recovered a snapshot");
}

/// One harness covers five consecutive crash points: the crash point stays the solver's variable; the case split
/// only makes every branch run the real flush and the real load on a concrete directory.
macro_rules! crash_h {
    ($name:ident, $toggle:expr, $periodic:expr, $lo:expr) => {
        #[cfg_attr(kani, kani::proof)]
        #[cfg_attr(kani, kani::unwind(12))]
        #[cfg_attr(not(kani), test)]
        pub fn $name() {
            let c: u32 = kani::any();
            kani::assume(c >= $lo && c < $lo + 5);
            h_set_torn_byte(kani::any());
            if c == $lo { crash_in_third_flush($toggle, $lo, $periodic) }
            else if c == $lo + 1 { crash_in_third_flush($toggle, $lo + 1, $periodic) }
            else if c == $lo + 2 { crash_in_third_flush($toggle, $lo + 2, $periodic) }
            else if c == $lo + 3 { crash_in_third_flush($toggle, $lo + 3, $periodic) }
            else { crash_in_third_flush($toggle, $lo + 4, $periodic) }
        }
    };
}

// @h props=C10 tier=quick cap=900 mem=12 autounwind=24 desc="shutdown flush (synchronous) killed after c file operations, c in 0..=4 and the torn byte chosen by the solver; selector names slot a before; then restart and load" bounds="2 completed flushes before; 14 file operations per flush (14 = whole flush); snapshots are tokens"
crash_h!(c10_crash_sync_sel_a_c0, true, false, 0);

// @h props=C10 tier=quick cap=900 mem=12 autounwind=24 desc="shutdown flush (synchronous) killed after c file operations, c in 5..=9 and the torn byte chosen by the solver; selector names slot a before; then restart and load" bounds="2 completed flushes before; 14 file operations per flush (14 = whole flush); snapshots are tokens"
crash_h!(c10_crash_sync_sel_a_c5, true, false, 5);

// @h props=C10 tier=quick cap=900 mem=12 autounwind=24 desc="shutdown flush (synchronous) killed after c file operations, c in 10..=14 and the torn byte chosen by the solver; selector names slot a before; then restart and load" bounds="2 completed flushes before; 14 file operations per flush (14 = whole flush); snapshots are tokens"
crash_h!(c10_crash_sync_sel_a_c10, true, false, 10);

// @h props=C10 tier=quick cap=900 mem=12 autounwind=24 desc="shutdown flush (synchronous) killed after c file operations, c in 0..=4 and the torn byte chosen by the solver; selector names slot b before; then restart and load" bounds="2 completed flushes before; 14 file operations per flush (14 = whole flush); snapshots are tokens"
crash_h!(c10_crash_sync_sel_b_c0, false, false, 0);

// @h props=C10 tier=quick cap=900 mem=12 autounwind=24 desc="shutdown flush (synchronous) killed after c file operations, c in 5..=9 and the torn byte chosen by the solver; selector names slot b before; then restart and load" bounds="2 completed flushes before; 14 file operations per flush (14 = whole flush); snapshots are tokens"
crash_h!(c10_crash_sync_sel_b_c5, false, false, 5);

// @h props=C10 tier=quick cap=900 mem=12 autounwind=24 desc="shutdown flush (synchronous) killed after c file operations, c in 10..=14 and the torn byte chosen by the solver; selector names slot b before; then restart and load" bounds="2 completed flushes before; 14 file operations per flush (14 = whole flush); snapshots are tokens"
crash_h!(c10_crash_sync_sel_b_c10, false, false, 10);

// @h props=C10 tier=quick cap=900 mem=12 autounwind=24 desc="periodic flush (asynchronous) killed after c file operations, c in 0..=4 and the torn byte chosen by the solver; selector names slot a before; then restart and load" bounds="2 completed flushes before; 14 file operations per flush (14 = whole flush); snapshots are tokens"
crash_h!(c10_crash_periodic_sel_a_c0, true, true, 0);

// @h props=C10 tier=quick cap=900 mem=12 autounwind=24 desc="periodic flush (asynchronous) killed after c file operations, c in 5..=9 and the torn byte chosen by the solver; selector names slot a before; then restart and load" bounds="2 completed flushes before; 14 file operations per flush (14 = whole flush); snapshots are tokens"
crash_h!(c10_crash_periodic_sel_a_c5, true, true, 5);

// @h props=C10 tier=quick cap=900 mem=12 autounwind=24 desc="periodic flush (asynchronous) killed after c file operations, c in 10..=14 and the torn byte chosen by the solver; selector names slot a before; then restart and load" bounds="2 completed flushes before; 14 file operations per flush (14 = whole flush); snapshots are tokens"
crash_h!(c10_crash_periodic_sel_a_c10, true, true, 10);

// @h props=C10 tier=quick cap=900 mem=12 autounwind=24 desc="periodic flush (asynchronous) killed after c file operations, c in 0..=4 and the torn byte chosen by the solver; selector names slot b before; then restart and load" bounds="2 completed flushes before; 14 file operations per flush (14 = whole flush); snapshots are tokens"
crash_h!(c10_crash_periodic_sel_b_c0, false, true, 0);

// @h props=C10 tier=quick cap=900 mem=12 autounwind=24 desc="periodic flush (asynchronous) killed after c file operations, c in 5..=9 and the torn byte chosen by the solver; selector names slot b before; then restart and load" bounds="2 completed flushes before; 14 file operations per flush (14 = whole flush); snapshots are tokens"
crash_h!(c10_crash_periodic_sel_b_c5, false, true, 5);

// @h props=C10 tier=quick cap=900 mem=12 autounwind=24 desc="periodic flush (asynchronous) killed after c file operations, c in 10..=14 and the torn byte chosen by the solver; selector names slot b before; then restart and load" bounds="2 completed flushes before; 14 file operations per flush (14 = whole flush); snapshots are tokens"
crash_h!(c10_crash_periodic_sel_b_c10, false, true, 10);

// @h props=C10 tier=quick cap=600 mem=8 autounwind=24 desc="a complete flush from an empty directory writes exactly the layout the other harnesses start from; the next start loads it" bounds="snapshot ids 1..=3 chosen by the solver"
#[cfg_attr(kani, kani::proof)]
#[cfg_attr(kani, kani::unwind(12))]
#[cfg_attr(not(kani), test)]
pub fn c10_flush_layout() {
    let k: u8 = kani::any();
    kani::assume(k >= 1 && k <= 3);
    let cfg = Config { data_dir: h_reset() };
    let f = |k: u8| {
        let done = flush(&cfg, k, false);
        assert!(done, "C10: a flush that is not interrupted succeeds");
        assert!(h_toggle(), "C10: the first flush selects slot a");
        assert!(h_slot_is(0, k, k + 3, k + 6), "C10: slot a holds the complete snapshot");
        let got = restart_and_check(&cfg, k, k);
        assert!(got == k);
    };
    if k == 1 { f(1) } else if k == 2 { f(2) } else { f(3) }
}

/// Native self-test of the construction (sampling, not a deciding step; never run by the driver): every crash point
/// of the third flush against the real file system, one failure message per crash point.
#[cfg(not(kani))]
#[test]
#[ignore]
pub fn c10_native_all_crash_points() {
    let mut bad = Vec::new();
    for periodic in [false, true] {
        for toggle in [true, false] {
            for c in 0..=NOPS {
                let r = std::panic::catch_unwind(|| crash_in_third_flush(toggle, c, periodic));
                if let Err(e) = r {
                    let msg = e.downcast_ref::<&str>().map(|s| s.to_string()).or_else(|| e.downcast_ref::<String>().cloned()).unwrap_or_default();
                    bad.push(format!("periodic={periodic} selector_a={toggle} c={c}: {msg}"));
                }
                h_cleanup();
            }
        }
    }
    for b in &bad {
        println!("NATIVE-FAIL {b}");
    }
    assert!(bad.is_empty(), "{} crash points fail natively", bad.len());
}

/// Fewer than two completed flushes before the one that is killed: `history` 0 = empty data directory (first flush
/// ever), 1 = one completed flush (snapshot 1 in slot a, selector present, slot b empty).
fn crash_in_early_flush(history: u8, c: u32, periodic: bool) {
    let cfg = Config { data_dir: h_reset() };
    if history == 1 {
        h_set_toggle(true);
        h_put_snapshot(0, 1, 4, 7);
    }
    let k = history + 1;
    h_arm(c);
    let done = flush(&cfg, k, periodic);
    assert!(done == (c >= NOPS), "C10: a flush reports success exactly when all its file operations happened");
    h_restart();
    let r = aw!(load(&cfg));
    match r {
        Ok(wb) => {
            assert!(wb.store == k || (history == 1 && wb.store == 1 && !done),
                "C10: the next start recovers the last completed flush or the one in progress, never an older snapshot");
            let same = wb.applied_gg && wb.applied_gg_id == wb.store + 3 && wb.applied_lw && wb.applied_lw_id == wb.store + 6;
            if history == 0 {
                // recorded open finding (known_findings.json): a kill inside the FIRST flush ever, after the store files and
                // before the grave goods / last will files are complete, restores the store of that flush WITHOUT registrations
                assert!(same, "[KF-C10-first-flush-store-without-registrations] C10: the grave goods and last wills applied are those of the SAME snapshot as the store");
            } else {
                assert!(same, "C10: the grave goods and last wills applied are those of the SAME snapshot as the store");
            }
            core::mem::forget(wb);
        }
        Err(e) => {
            core::mem::forget(e);
            // nothing was ever flushed completely: an empty start is the state of "the last completed flush"
            assert!(history == 0 && !done, "C10: a start after a crash finds the last completed flush");
        }
    }
    #[cfg(kani)]
    kani::cover!(true, "the restart was reached");
}
macro_rules! early_h {
    ($name:ident, $history:expr, $periodic:expr, $lo:expr) => {
        #[cfg_attr(kani, kani::proof)]
        #[cfg_attr(kani, kani::unwind(12))]
        #[cfg_attr(not(kani), test)]
        pub fn $name() {
            let c: u32 = kani::any();
            kani::assume(c >= $lo && c < $lo + 5);
            h_set_torn_byte(kani::any());
            if c == $lo { crash_in_early_flush($history, $lo, $periodic) }
            else if c == $lo + 1 { crash_in_early_flush($history, $lo + 1, $periodic) }
            else if c == $lo + 2 { crash_in_early_flush($history, $lo + 2, $periodic) }
            else if c == $lo + 3 { crash_in_early_flush($history, $lo + 3, $periodic) }
            else { crash_in_early_flush($history, $lo + 4, $periodic) }
        }
    };
}
// @h props=C10 tier=thorough cap=900 mem=12 autounwind=24 desc="the FIRST flush ever (empty data directory) killed after c file operations, c in 0..=4 and the torn byte chosen by the solver; then restart and load" bounds="14 file operations per flush; snapshots are tokens"
early_h!(c10_crash_early_h0_c0, 0, false, 0);

// @h props=C10 tier=thorough cap=900 mem=12 autounwind=24 desc="the FIRST flush ever (empty data directory) killed after c file operations, c in 5..=9 and the torn byte chosen by the solver; then restart and load" bounds="14 file operations per flush; snapshots are tokens"
early_h!(c10_crash_early_h0_c5, 0, false, 5);

// @h props=C10 tier=thorough cap=900 mem=12 autounwind=24 desc="the FIRST flush ever (empty data directory) killed after c file operations, c in 10..=14 and the torn byte chosen by the solver; then restart and load" bounds="14 file operations per flush; snapshots are tokens"
early_h!(c10_crash_early_h0_c10, 0, false, 10);

// @h props=C10 tier=quick cap=900 mem=12 autounwind=24 desc="the SECOND flush (one completed flush before) killed after c file operations, c in 0..=4 and the torn byte chosen by the solver; then restart and load" bounds="14 file operations per flush; snapshots are tokens"
early_h!(c10_crash_early_h1_c0, 1, false, 0);

// @h props=C10 tier=quick cap=900 mem=12 autounwind=24 desc="the SECOND flush (one completed flush before) killed after c file operations, c in 5..=9 and the torn byte chosen by the solver; then restart and load" bounds="14 file operations per flush; snapshots are tokens"
early_h!(c10_crash_early_h1_c5, 1, false, 5);

// @h props=C10 tier=quick cap=900 mem=12 autounwind=24 desc="the SECOND flush (one completed flush before) killed after c file operations, c in 10..=14 and the torn byte chosen by the solver; then restart and load" bounds="14 file operations per flush; snapshots are tokens"
early_h!(c10_crash_early_h1_c10, 1, false, 10);
