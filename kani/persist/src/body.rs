// Shared by the Kani harness crate (/verif/kani/persist: model file system, de-sugared v3.rs) and its native
// replay twin (/verif/replay/persist: REAL tokio::fs in a scratch directory, REAL serde_json text codec, REAL
// SHA-256 / hex, ORIGINAL async v3.rs). `cfg(kani)` selects the side.
//
// What is under test: persistence/json/v3.rs of /repo, whole and unmodified - `synchronous`, `asynchronous`,
// `write_and_check`, `write_to_disk`, `write_file`, `validate_file_content`, `load`, `try_load`,
// `try_load_grave_goods_last_will`, `read_json_from_file`, `file_paths`, `toggle_alternating_files`,
// `compute_checksum`, `validate_checksum`. The file starts with `use super::*`: everything it needs from its parent
// module (`fs`, `File`, `remove_file`, `Path`, `PathBuf`, `Sha256`, `hex`, `Worterbuch`, `Config`, ...) is supplied
// here instead of by persistence/json/mod.rs.

/// THE ENVIRONMENT: a file system whose process can be killed. Every MUTATING call (create, write_all, rename,
/// remove_file) consumes one unit of a budget; at budget 0 the call has no effect, fails, and so does every later
/// call - exactly the directory a kill at that point leaves behind (process-crash model of the property: completed
/// operations persist in order). A `write_all` that is interrupted leaves the file it wrote to torn.
#[cfg(kani)]
pub mod modelfs {
    use core::fmt;
    use core::ops::Deref;

    #[derive(Debug)]
    pub struct IoError;

    /// Paths are interned: a path inside the data dir is the one-letter code of its file name (`A`..`J`), its
    /// `*.tmp` sibling is `<code>.tmp`.
    #[repr(transparent)]
    pub struct Path(str);
    #[derive(Clone)]
    pub struct PathBuf(String);
    impl Path {
        pub fn new(s: &str) -> &Path {
            unsafe { &*(s as *const str as *const Path) }
        }
        pub fn to_string_lossy(&self) -> &str {
            &self.0
        }
    }
    impl fmt::Debug for Path {
        fn fmt(&self, f: &mut fmt::Formatter<'_>) -> fmt::Result {
            f.write_str("path")
        }
    }
    impl fmt::Debug for PathBuf {
        fn fmt(&self, f: &mut fmt::Formatter<'_>) -> fmt::Result {
            f.write_str("pathbuf")
        }
    }
    pub const CODES: [&str; 10] = ["A", "B", "C", "D", "E", "F", "G", "H", "I", "J"];
    pub const NAMES: [&str; 10] = [
        ".toggle",
        "store.a.json",
        "store.a.json.sha256",
        "gglw.a.json",
        "gglw.a.json.sha256",
        "store.b.json",
        "store.b.json.sha256",
        "gglw.b.json",
        "gglw.b.json.sha256",
        "last-persisted",
    ];
    impl PathBuf {
        pub fn push(&mut self, seg: &str) {
            let mut i = 0;
            while i < 10 {
                if NAMES[i] == seg {
                    self.0 = String::from(CODES[i]);
                    return;
                }
                i += 1;
            }
            panic!("model file system: unknown file name")
        }
    }
    impl From<&String> for PathBuf {
        fn from(_dir: &String) -> Self {
            PathBuf(String::new())
        }
    }
    impl Deref for PathBuf {
        type Target = Path;
        fn deref(&self) -> &Path {
            Path::new(&self.0)
        }
    }
    impl AsRef<Path> for Path {
        fn as_ref(&self) -> &Path {
            self
        }
    }
    impl AsRef<Path> for PathBuf {
        fn as_ref(&self) -> &Path {
            self
        }
    }
    impl AsRef<Path> for String {
        fn as_ref(&self) -> &Path {
            Path::new(self)
        }
    }
    impl AsRef<Path> for str {
        fn as_ref(&self) -> &Path {
            Path::new(self)
        }
    }

    pub const NFILES: usize = 20; // 10 names x {final, .tmp}
    pub const MAXLEN: usize = 6;

    #[derive(Clone, Copy)]
    pub struct Slot {
        pub exists: bool,
        pub len: usize,
        pub data: [u8; MAXLEN],
        pub torn: bool,
    }
    pub const EMPTY: Slot = Slot { exists: false, len: 0, data: [0; MAXLEN], torn: false };
    pub static mut FS: [Slot; NFILES] = [EMPTY; NFILES];
    pub static mut BUDGET: u32 = u32::MAX;
    pub static mut DEAD: bool = false;
    /// what a reader finds in a torn file: one byte chosen by the solver
    pub static mut TORN_BYTE: u8 = b'!';

    fn index(p: &Path) -> usize {
        let b = p.0.as_bytes();
        assert!(b.len() == 1 || b.len() == 5, "model file system: path is a code or <code>.tmp");
        let base = (b[0] - b'A') as usize;
        assert!(base < 10);
        2 * base + if b.len() == 5 { 1 } else { 0 }
    }

    /// one mutating step of the process; false = the process is dead (the call has no effect)
    fn step() -> bool {
        unsafe {
            if DEAD {
                return false;
            }
            if BUDGET == 0 {
                DEAD = true;
                return false;
            }
            BUDGET -= 1;
            true
        }
    }

    pub struct File {
        idx: usize,
    }
    impl File {
        pub fn create(p: impl AsRef<Path>) -> Result<File, IoError> {
            let idx = index(p.as_ref());
            if !step() {
                return Err(IoError);
            }
            unsafe {
                FS[idx] = Slot { exists: true, len: 0, data: [0; MAXLEN], torn: false };
            }
            Ok(File { idx })
        }
        pub fn open(p: impl AsRef<Path>) -> Result<File, IoError> {
            let idx = index(p.as_ref());
            unsafe {
                if DEAD || !FS[idx].exists {
                    return Err(IoError);
                }
            }
            Ok(File { idx })
        }
    }
    pub trait AsyncWriteExt {
        fn write_all(&mut self, data: &[u8]) -> Result<(), IoError>;
        fn flush(&mut self) -> Result<(), IoError>;
    }
    impl AsyncWriteExt for File {
        fn write_all(&mut self, data: &[u8]) -> Result<(), IoError> {
            assert!(data.len() <= MAXLEN, "model file system: content fits a slot");
            if !step() {
                // an interrupted write leaves a torn file (only *.tmp files are ever written this way)
                unsafe {
                    if FS[self.idx].exists {
                        FS[self.idx].torn = true;
                    }
                }
                return Err(IoError);
            }
            unsafe {
                let mut i = 0;
                while i < MAXLEN {
                    if i < data.len() {
                        FS[self.idx].data[i] = data[i];
                    }
                    i += 1;
                }
                FS[self.idx].len = data.len();
            }
            Ok(())
        }
        fn flush(&mut self) -> Result<(), IoError> {
            unsafe { if DEAD { Err(IoError) } else { Ok(()) } }
        }
    }
    pub trait AsyncReadExt {
        fn read_to_end(&mut self, buf: &mut Vec<u8>) -> Result<usize, IoError>;
    }
    fn content(idx: usize) -> Result<Vec<u8>, IoError> {
        unsafe {
            if DEAD || !FS[idx].exists {
                return Err(IoError);
            }
            let mut v = Vec::with_capacity(MAXLEN);
            if FS[idx].torn {
                v.push(TORN_BYTE);
                return Ok(v);
            }
            let mut i = 0;
            while i < MAXLEN {
                if i < FS[idx].len {
                    v.push(FS[idx].data[i]);
                }
                i += 1;
            }
            Ok(v)
        }
    }
    impl AsyncReadExt for File {
        fn read_to_end(&mut self, buf: &mut Vec<u8>) -> Result<usize, IoError> {
            let c = content(self.idx)?;
            let n = c.len();
            *buf = c;
            Ok(n)
        }
    }
    pub fn remove_file(p: impl AsRef<Path>) -> Result<(), IoError> {
        let idx = index(p.as_ref());
        unsafe {
            if DEAD || !FS[idx].exists {
                return Err(IoError);
            }
        }
        if !step() {
            return Err(IoError);
        }
        unsafe {
            FS[idx].exists = false;
        }
        Ok(())
    }
    pub fn rename(from: impl AsRef<Path>, to: impl AsRef<Path>) -> Result<(), IoError> {
        let a = index(from.as_ref());
        let b = index(to.as_ref());
        unsafe {
            if DEAD || !FS[a].exists {
                return Err(IoError);
            }
        }
        if !step() {
            return Err(IoError);
        }
        unsafe {
            FS[b] = FS[a];
            FS[a].exists = false;
        }
        Ok(())
    }
    pub fn read_to_string(p: impl AsRef<Path>) -> Result<String, IoError> {
        let c = content(index(p.as_ref()))?;
        Ok(unsafe { String::from_utf8_unchecked(c) })
    }

    // ---- harness side ------------------------------------------------------------------------------------------
    pub fn h_reset() -> String {
        unsafe {
            FS = [EMPTY; NFILES];
            BUDGET = u32::MAX;
            DEAD = false;
        }
        String::from("d")
    }
    pub fn h_arm(c: u32) {
        unsafe {
            BUDGET = c;
            DEAD = false;
        }
    }
    /// the process is restarted: the directory stays as it is, calls work again
    pub fn h_restart() {
        unsafe {
            BUDGET = u32::MAX;
            DEAD = false;
        }
    }
    pub fn h_died() -> bool {
        unsafe { DEAD }
    }
    pub fn h_set_toggle(present: bool) {
        unsafe {
            FS[0] = EMPTY;
            FS[0].exists = present;
        }
    }
    pub fn h_toggle() -> bool {
        unsafe { FS[0].exists }
    }
    fn put(idx: usize, text: &[u8]) {
        let mut d = [0u8; MAXLEN];
        let mut i = 0;
        while i < text.len() {
            d[i] = text[i];
            i += 1;
        }
        unsafe {
            FS[idx] = Slot { exists: true, len: text.len(), data: d, torn: false };
        }
    }
    /// slot (0 = a, 1 = b) holds the complete result of a flush of snapshot (store `s`, grave goods `g`, last
    /// will `w`), byte for byte what `synchronous` writes under the token codec (checked by `c10_flush_layout`)
    pub fn h_put_snapshot(slot: usize, s: u8, g: u8, w: u8) {
        let base = 1 + 4 * slot; // name indices: store, store.sha, gglw, gglw.sha
        put(2 * base, &[b'0' + s]);
        put(2 * (base + 1), &[b'#', b'0' + s]);
        put(2 * (base + 2), &[b'{', b'0' + g, b'0' + w, b'}']);
        put(2 * (base + 3), &[b'#', b'{', b'0' + g, b'0' + w, b'}']);
        put(2 * 9, &[]);
    }
    /// does slot hold exactly that complete snapshot?
    pub fn h_slot_is(slot: usize, s: u8, g: u8, w: u8) -> bool {
        let base = 1 + 4 * slot;
        unsafe {
            let a = &FS[2 * base];
            let b = &FS[2 * (base + 1)];
            let c = &FS[2 * (base + 2)];
            let d = &FS[2 * (base + 3)];
            a.exists && !a.torn && a.len == 1 && a.data[0] == b'0' + s
                && b.exists && !b.torn && b.len == 2 && b.data[0] == b'#' && b.data[1] == b'0' + s
                && c.exists && !c.torn && c.len == 4 && c.data[0] == b'{' && c.data[1] == b'0' + g && c.data[2] == b'0' + w && c.data[3] == b'}'
                && d.exists && !d.torn && d.len == 5 && d.data[0] == b'#' && d.data[1] == b'{' && d.data[2] == b'0' + g && d.data[3] == b'0' + w && d.data[4] == b'}'
        }
    }
    pub fn h_set_torn_byte(b: u8) {
        unsafe {
            TORN_BYTE = b;
        }
    }
}

/// Native side: the same API over REAL tokio::fs in a scratch directory.
#[cfg(not(kani))]
pub mod modelfs {
    pub use std::path::{Path, PathBuf};
    use std::sync::atomic::{AtomicBool, AtomicU32, Ordering::SeqCst};
    pub type IoError = std::io::Error;
    static BUDGET: AtomicU32 = AtomicU32::new(u32::MAX);
    static DEAD: AtomicBool = AtomicBool::new(false);
    thread_local! { static DIR: std::cell::RefCell<Option<PathBuf>> = std::cell::RefCell::new(None); }
    fn dead() -> IoError {
        IoError::new(std::io::ErrorKind::Other, "the process is dead")
    }
    fn step() -> bool {
        if DEAD.load(SeqCst) {
            return false;
        }
        if BUDGET.load(SeqCst) == 0 {
            DEAD.store(true, SeqCst);
            return false;
        }
        BUDGET.fetch_sub(1, SeqCst);
        true
    }
    pub struct File(tokio::fs::File);
    impl File {
        pub async fn create(p: impl AsRef<Path>) -> Result<File, IoError> {
            if !step() {
                return Err(dead());
            }
            tokio::fs::File::create(p).await.map(File)
        }
        pub async fn open(p: impl AsRef<Path>) -> Result<File, IoError> {
            if DEAD.load(SeqCst) {
                return Err(dead());
            }
            tokio::fs::File::open(p).await.map(File)
        }
    }
    pub trait AsyncWriteExt {
        fn write_all(&mut self, data: &[u8]) -> impl Future<Output = Result<(), IoError>>;
        fn flush(&mut self) -> impl Future<Output = Result<(), IoError>>;
    }
    impl AsyncWriteExt for File {
        async fn write_all(&mut self, data: &[u8]) -> Result<(), IoError> {
            use tokio::io::AsyncWriteExt as _;
            if !step() {
                // interrupted write: a prefix reached the disk
                if !data.is_empty() {
                    let _ = self.0.write_all(&data[..data.len() / 2]).await;
                    let _ = self.0.flush().await;
                }
                return Err(dead());
            }
            self.0.write_all(data).await
        }
        async fn flush(&mut self) -> Result<(), IoError> {
            use tokio::io::AsyncWriteExt as _;
            if DEAD.load(SeqCst) {
                return Err(dead());
            }
            self.0.flush().await
        }
    }
    pub trait AsyncReadExt {
        fn read_to_end(&mut self, buf: &mut Vec<u8>) -> impl Future<Output = Result<usize, IoError>>;
    }
    impl AsyncReadExt for File {
        async fn read_to_end(&mut self, buf: &mut Vec<u8>) -> Result<usize, IoError> {
            use tokio::io::AsyncReadExt as _;
            if DEAD.load(SeqCst) {
                return Err(dead());
            }
            self.0.read_to_end(buf).await
        }
    }
    pub async fn remove_file(p: impl AsRef<Path>) -> Result<(), IoError> {
        if DEAD.load(SeqCst) {
            return Err(dead());
        }
        if !p.as_ref().exists() {
            return Err(IoError::new(std::io::ErrorKind::NotFound, "no such file"));
        }
        if !step() {
            return Err(dead());
        }
        tokio::fs::remove_file(p).await
    }
    pub async fn rename(from: impl AsRef<Path>, to: impl AsRef<Path>) -> Result<(), IoError> {
        if DEAD.load(SeqCst) {
            return Err(dead());
        }
        if !from.as_ref().exists() {
            return Err(IoError::new(std::io::ErrorKind::NotFound, "no such file"));
        }
        if !step() {
            return Err(dead());
        }
        tokio::fs::rename(from, to).await
    }
    pub async fn read_to_string(p: impl AsRef<Path>) -> Result<String, IoError> {
        if DEAD.load(SeqCst) {
            return Err(dead());
        }
        tokio::fs::read_to_string(p).await
    }

    // ---- harness side ------------------------------------------------------------------------------------------
    pub fn h_reset() -> String {
        static N: AtomicU32 = AtomicU32::new(0);
        let d = std::env::temp_dir().join(format!("verif-c10-{}-{}", std::process::id(), N.fetch_add(1, SeqCst)));
        let _ = std::fs::remove_dir_all(&d);
        std::fs::create_dir_all(&d).unwrap();
        DIR.with(|x| *x.borrow_mut() = Some(d.clone()));
        BUDGET.store(u32::MAX, SeqCst);
        DEAD.store(false, SeqCst);
        d.to_string_lossy().to_string()
    }
    pub fn h_cleanup() {
        DIR.with(|x| {
            if let Some(d) = x.borrow_mut().take() {
                let _ = std::fs::remove_dir_all(d);
            }
        });
    }
    fn dir() -> PathBuf {
        DIR.with(|x| x.borrow().clone().unwrap())
    }
    pub fn h_arm(c: u32) {
        BUDGET.store(c, SeqCst);
        DEAD.store(false, SeqCst);
    }
    pub fn h_restart() {
        BUDGET.store(u32::MAX, SeqCst);
        DEAD.store(false, SeqCst);
    }
    pub fn h_died() -> bool {
        DEAD.load(SeqCst)
    }
    pub fn h_set_toggle(present: bool) {
        let p = dir().join(".toggle");
        let _ = std::fs::remove_file(&p);
        if present {
            std::fs::write(&p, b"").unwrap();
        }
    }
    pub fn h_toggle() -> bool {
        dir().join(".toggle").exists()
    }
    fn texts(s: u8, g: u8, w: u8) -> (String, String) {
        use crate::standins::{GraveGoodsLastWill, SnapStore};
        let store = serde_json::json!({ "data": SnapStore(s) }).to_string();
        let gglw = serde_json::to_string(&GraveGoodsLastWill { grave_goods: g, last_will: w }).unwrap();
        (store, gglw)
    }
    fn sha(s: &str) -> String {
        use sha2::Digest;
        let mut h = sha2::Sha256::new();
        h.update(s.as_bytes());
        hex::encode(h.finalize())
    }
    pub fn h_put_snapshot(slot: usize, s: u8, g: u8, w: u8) {
        let x = if slot == 0 { "a" } else { "b" };
        let (store, gglw) = texts(s, g, w);
        std::fs::write(dir().join(format!("store.{x}.json")), &store).unwrap();
        std::fs::write(dir().join(format!("store.{x}.json.sha256")), sha(&store)).unwrap();
        std::fs::write(dir().join(format!("gglw.{x}.json")), &gglw).unwrap();
        std::fs::write(dir().join(format!("gglw.{x}.json.sha256")), sha(&gglw)).unwrap();
        std::fs::write(dir().join("last-persisted"), b"").unwrap();
    }
    pub fn h_slot_is(slot: usize, s: u8, g: u8, w: u8) -> bool {
        let x = if slot == 0 { "a" } else { "b" };
        let (store, gglw) = texts(s, g, w);
        let rd = |n: String| std::fs::read_to_string(dir().join(n)).ok();
        rd(format!("store.{x}.json")) == Some(store.clone())
            && rd(format!("store.{x}.json.sha256")) == Some(sha(&store))
            && rd(format!("gglw.{x}.json")) == Some(gglw.clone())
            && rd(format!("gglw.{x}.json.sha256")) == Some(sha(&gglw))
    }
    pub fn h_set_torn_byte(_b: u8) {}
}

/// stand-in functions that the included file awaits: plain functions under Kani (de-sugared build), `async` natively
macro_rules! afn {
    (pub fn $name:ident ( $($args:tt)* ) $(-> $ret:ty)? $body:block) => {
        #[cfg(kani)]
        pub fn $name($($args)*) $(-> $ret)? $body
        #[cfg(not(kani))]
        pub async fn $name($($args)*) $(-> $ret)? $body
    };
}

pub mod standins {
    use serde::{Deserialize, Serialize};
    #[derive(Debug)]
    pub enum PersistenceError {
        StoreLocked,
        DataMismatch,
        ChecksumMismatch,
        Io,
        Serde,
    }
    pub type PersistenceResult<T> = Result<T, PersistenceError>;
    impl From<crate::modelfs::IoError> for PersistenceError {
        fn from(_: crate::modelfs::IoError) -> Self {
            PersistenceError::Io
        }
    }
    impl From<serde_json::Error> for PersistenceError {
        fn from(_: serde_json::Error) -> Self {
            PersistenceError::Serde
        }
    }
    impl core::fmt::Display for PersistenceError {
        fn fmt(&self, f: &mut core::fmt::Formatter<'_>) -> core::fmt::Result {
            f.write_str("persistence error")
        }
    }
    impl std::error::Error for PersistenceError {}

    pub struct Interval;
    impl Interval {
        afn! { pub fn tick(&mut self) {} }
    }
    #[derive(Clone, Debug)]
    pub struct Config {
        pub data_dir: String,
    }
    impl Config {
        pub fn persistence_interval(&self) -> Interval {
            Interval
        }
    }
    pub struct SubsystemHandle;
    impl SubsystemHandle {
        afn! { pub fn shutdown_requested(&self) {} }
    }

    /// A snapshot is three small numbers: what the store holds, which grave goods and which last wills are
    /// registered. The real types only matter to the (out of reach) text codec.
    #[derive(Serialize, Deserialize, Clone, Copy, PartialEq, Debug)]
    pub struct SnapStore(pub u8);
    /// what `serde_json::from_str` of a store file yields (`{"data": <store>}` natively; the bare token under Kani)
    #[cfg(kani)]
    pub type Persisted = SnapStore;
    #[cfg(not(kani))]
    #[derive(Serialize, Deserialize, Clone, Copy, PartialEq, Debug)]
    pub struct Persisted {
        pub data: SnapStore,
    }
    #[derive(Serialize, Deserialize, Clone, PartialEq, Debug)]
    pub struct GraveGoodsLastWill {
        pub grave_goods: u8,
        pub last_will: u8,
    }
    /// the handle the periodic flush exports through
    pub struct CloneableWbApi {
        pub store: u8,
        pub gg: u8,
        pub lw: u8,
    }
    #[cfg(kani)]
    pub type Exported = serde_json::RawText;
    #[cfg(not(kani))]
    pub type Exported = serde_json::Value;
    impl CloneableWbApi {
        afn! { pub fn export(&self, _span: tracing::Span) -> PersistenceResult<(Exported, u8, u8)> {
            Ok((serde_json::json!({ "data": SnapStore(self.store) }), self.gg, self.lw))
        } }
    }
    pub struct Worterbuch {
        pub store: u8,
        pub gg: u8,
        pub lw: u8,
        pub applied_gg: bool,
        pub applied_gg_id: u8,
        pub applied_lw: bool,
        pub applied_lw_id: u8,
    }
    impl Worterbuch {
        pub fn of(store: u8, gg: u8, lw: u8) -> Worterbuch {
            Worterbuch { store, gg, lw, applied_gg: false, applied_gg_id: 0, applied_lw: false, applied_lw_id: 0 }
        }
        pub fn export(&mut self) -> (SnapStore, u8, u8) {
            (SnapStore(self.store), self.gg, self.lw)
        }
        pub fn from_persistence(store: Persisted, _config: Config) -> Worterbuch {
            #[cfg(kani)]
            let id = store.0;
            #[cfg(not(kani))]
            let id = store.data.0;
            Worterbuch::of(id, 0, 0)
        }
        afn! { pub fn apply_grave_goods(&mut self, gg: u8) {
            self.applied_gg = true;
            self.applied_gg_id = gg;
        } }
        afn! { pub fn apply_last_wills(&mut self, lw: u8) {
            self.applied_lw = true;
            self.applied_lw_id = lw;
        } }
    }

    /// Kani side: an injective stand-in for SHA-256 + hex ("#" + the data; assumption: no SHA-256 collisions)
    #[cfg(kani)]
    pub struct Sha256 {
        buf: Vec<u8>,
    }
    #[cfg(kani)]
    pub trait Digest {
        fn new() -> Self;
        fn update(&mut self, data: impl AsRef<[u8]>);
        fn finalize(self) -> Vec<u8>;
    }
    #[cfg(kani)]
    impl Digest for Sha256 {
        fn new() -> Self {
            Sha256 { buf: Vec::new() }
        }
        fn update(&mut self, data: impl AsRef<[u8]>) {
            let d = data.as_ref();
            let mut v = Vec::with_capacity(8);
            let mut i = 0;
            while i < 8 {
                if i < d.len() {
                    v.push(d[i]);
                }
                i += 1;
            }
            assert!(d.len() <= 8);
            self.buf = v;
        }
        fn finalize(self) -> Vec<u8> {
            self.buf
        }
    }
    #[cfg(kani)]
    pub mod hex {
        pub fn encode(v: impl AsRef<[u8]>) -> String {
            let d = v.as_ref();
            let mut s = String::with_capacity(9);
            s.push('#');
            let mut i = 0;
            while i < 8 {
                if i < d.len() {
                    s.push(d[i] as char);
                }
                i += 1;
            }
            s
        }
    }
    #[cfg(not(kani))]
    pub use hex;
    #[cfg(not(kani))]
    pub use sha2::{Digest, Sha256};
}

pub mod persistence {
    pub const TIMESTAMP_FILE_NAME: &str = "last-persisted";
    pub fn is_persistence_locked() -> bool {
        false
    }
    pub mod json {
        // stands in for the `use` lines of the real persistence/json/mod.rs
        use crate::modelfs::{self as fs, AsyncReadExt, AsyncWriteExt, File, Path, PathBuf, remove_file};
        use crate::standins::{
            CloneableWbApi, Config, Digest, GraveGoodsLastWill, PersistenceError, PersistenceResult, Sha256,
            SubsystemHandle, Worterbuch, hex,
        };
        use serde_json::json;
        use tokio::select;
        use tracing::{debug, info, instrument, warn};

        /// Kani side: `format!` is shadowed for the included file - its only semantically relevant use
        /// (`format!("{}.tmp", path.to_string_lossy())`) is modelled exactly, every other use (log / error
        /// texts) yields an empty string ("formatting and logging get empty bodies").
        #[cfg(kani)]
        macro_rules! format {
            ("{}.tmp", $e:expr) => {{
                let mut s = String::with_capacity(5);
                s.push_str($e);
                s.push_str(".tmp");
                s
            }};
            ($($t:tt)*) => {
                String::new()
            };
        }

        pub mod v3 {
            model_prelude!();
            src!("v3.rs");

            pub mod h {
                use super::*;
                use crate::modelfs::*;
                include!("/verif/kani/persist/src/h/c10.rs");
            }
        }
    }
}
