//! Harness crate "persist": persistence/json/v3.rs of /repo (current working tree, after the lexical async/.await
//! de-sugaring of /verif/gen/deasync.py) on a MODEL FILE SYSTEM with a symbolic crash point (C10).
#![allow(dead_code, unused_imports, unused_variables, unused_mut, static_mut_refs, clippy::all)]

macro_rules! src {
    ("v3.rs") => { include!("/verif/kani/persist/gen/v3.rs"); };
}
macro_rules! model_prelude {
    () => { use tokio::Now as _; };
}
macro_rules! aw {
    ($e:expr) => { $e };
}
include!("/verif/kani/persist/src/body.rs");

#[cfg(kani)]
#[kani::proof]
fn zz_nothing() {}
