/// stand-in for worterbuch/src/config.rs: the one field auth.rs reads
#[derive(Clone, Debug)]
pub struct Config {
    pub auth_token_key: Option<String>,
}

pub mod auth {
    include!("/repo/worterbuch/src/auth.rs");

    #[cfg(any(kani, feature = "vreplay"))]
    mod h {
        use super::*;
        include!("/verif/kani/auth/src/h/util.rs");
        include!("/verif/kani/auth/src/h/c15_gen.rs");
        include!("/verif/kani/auth/src/h/c15.rs");
    }
}

