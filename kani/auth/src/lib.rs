//! Harness crate "auth" (C15): worterbuch/src/auth.rs included whole against the environment models
//! (jsonwebtoken is types only: token validation is outside every claim).
#![allow(dead_code, unused_imports, unused_variables, unused_mut, clippy::all)]

/// stand-in for worterbuch/src/config.rs: the one field auth.rs reads
#[derive(Clone, Debug)]
pub struct Config {
    pub auth_token_key: Option<String>,
}

pub mod auth {
    include!("/repo/worterbuch/src/auth.rs");

    #[cfg(any(kani, feature = "vreplay"))]
    mod h {
        use super::*;
        include!("/verif/kani/auth/src/h/util.rs");
        include!("/verif/kani/auth/src/h/c15_gen.rs");
        include!("/verif/kani/auth/src/h/c15.rs");
    }
}

#[cfg(kani)]
#[kani::proof]
fn zz_nothing() {
    let x: u64 = kani::any();
    assert!(x == x);
}
