//! Harness crate "auth" (C15): worterbuch/src/auth.rs included whole against the environment models
//! (jsonwebtoken is types only: token validation is outside every claim).
#![allow(dead_code, unused_imports, unused_variables, unused_mut, clippy::all)]

include!("/verif/kani/auth/src/body.rs");

#[cfg(kani)]
#[kani::proof]
fn zz_nothing() {
    let x: u64 = kani::any();
    assert!(x == x);
}
