// @module auth::h
// C15 (b)  privilege selection of JwtClaims::authorize: a request is authorized only through a grant listed for
// THAT privilege; flag privileges only against flag checks.
fn claims(read: Option<&str>, write: Option<&str>, delete: Option<&str>, profile: Option<bool>, web_login: Option<bool>) -> JwtClaims {
    fn one(x: Option<&str>) -> Option<Vec<String>> {
        match x {
            Some(p) => {
                let mut v = Vec::with_capacity(1);
                v.push(p.to_owned());
                Some(v)
            }
            None => None,
        }
    }
    JwtClaims {
        sub: s("u"),
        name: s("n"),
        exp: 0,
        worterbuch_privileges: Privileges { read: one(read), write: one(write), delete: one(delete), profile, web_login },
    }
}

// @h props=C15,C17 tier=quick cap=900 desc="authorize: read grant a/#, write grant b, no delete grant; privilege chosen by the solver, request pattern from a menu: Ok iff a grant OF THAT privilege covers the request" bounds="3 privileges x 4 requests"
#[kani::proof]
#[kani::unwind(6)]
#[kani::stub(std::fmt::format, stub_format)]
#[kani::stub(std::mem::MaybeUninit::write, stub_mu_write)]
fn c15_authorize_privilege_selection() {
    let c = claims(Some("a/#"), Some("b"), None, None, None);
    let which: u8 = kani::any();
    kani::assume(which < 3);
    let req: u8 = kani::any();
    kani::assume(req < 4);
    let pattern = if req == 0 { "a/x" } else if req == 1 { "b" } else if req == 2 { "a" } else { "#" };
    // (case split over the privilege: each branch calls with a concrete enum value)
    let (ok, expect) = if which == 0 {
        let r = c.authorize(&Privilege::Read, AuthCheck::Pattern(pattern));
        let ok = r.is_ok();
        core::mem::forget(r);
        (ok, req == 0)
    } else if which == 1 {
        let r = c.authorize(&Privilege::Write, AuthCheck::Pattern(pattern));
        let ok = r.is_ok();
        core::mem::forget(r);
        (ok, req == 1)
    } else {
        let r = c.authorize(&Privilege::Delete, AuthCheck::Pattern(pattern));
        let ok = r.is_ok();
        core::mem::forget(r);
        (ok, false)
    };
    assert!(ok == expect, "C15: a request is served only if a pattern granted for that very privilege covers it");
    kani::cover!(ok);
    kani::cover!(!ok);
    core::mem::forget(c);
}

// @h props=C15,C17 tier=quick cap=600 desc="authorize: flag privileges (profile, web-login) are granted only by their own flag and only against a flag check; pattern privileges are never granted against a flag check" bounds="flags symbolic"
#[kani::proof]
#[kani::unwind(6)]
#[kani::stub(std::fmt::format, stub_format)]
#[kani::stub(std::mem::MaybeUninit::write, stub_mu_write)]
fn c15_authorize_flags() {
    let p_set: bool = kani::any();
    let p_val: bool = kani::any();
    let w_set: bool = kani::any();
    let w_val: bool = kani::any();
    let c = claims(Some("#"), Some("#"), Some("#"), if p_set { Some(p_val) } else { None }, if w_set { Some(w_val) } else { None });
    let r1 = c.authorize(&Privilege::Profile, AuthCheck::Flag);
    assert!(r1.is_ok() == (p_set && p_val), "C15: profile only with its own flag");
    core::mem::forget(r1);
    let r2 = c.authorize(&Privilege::WebLogin, AuthCheck::Flag);
    assert!(r2.is_ok() == (w_set && w_val), "C15: web-login only with its own flag");
    core::mem::forget(r2);
    let r3 = c.authorize(&Privilege::Profile, AuthCheck::Pattern("a"));
    assert!(r3.is_err(), "C15: a flag privilege is never granted against a pattern");
    core::mem::forget(r3);
    let r4 = c.authorize(&Privilege::Read, AuthCheck::Flag);
    assert!(r4.is_err(), "C15: a pattern privilege is never granted against a flag check");
    core::mem::forget(r4);
    kani::cover!(p_set && p_val);
    core::mem::forget(c);
}

// @h props=C15,C17 tier=quick cap=900 desc="segment boundaries: grants over multi-character segments (ab/#, ab, ab/?, ?/ab) against requests whose segment has the granted one as a proper string prefix or is a prefix of it (abc, a, abc/#, ...), request chosen by the solver: containment is decided per SEGMENT, never per character" bounds="4 grants; 27 requests; segments of <= 3 characters"
#[kani::proof]
#[kani::unwind(6)]
fn c15_contain_segment_boundaries() {
    let sel: u8 = kani::any();
    kani::assume(sel < 27);
    macro_rules! no {
        ($g:literal, $r:literal) => {
            assert!(!pattern_matches($g, $r), "C15: a request that reaches keys in a SIBLING segment (one that merely starts with, or is a prefix of, the granted segment) must not be authorized")
        };
    }
    macro_rules! yes {
        ($g:literal, $r:literal) => {
            assert!(pattern_matches($g, $r), "C15: a request inside the granted subtree is authorized")
        };
    }
    match sel {
        0 => no!("ab/#", "abc"),
        1 => no!("ab/#", "abc/x"),
        2 => no!("ab/#", "abc/#"),
        3 => no!("ab/#", "abc/?"),
        4 => no!("ab/#", "a"),
        5 => no!("ab/#", "a/b"),
        6 => no!("ab/#", "a/#"),
        7 => no!("ab/#", "ab2"),
        8 => yes!("ab/#", "ab/c"),
        9 => yes!("ab/#", "ab/c/#"),
        10 => yes!("ab/#", "ab/?"),
        11 => no!("ab", "abc"),
        12 => no!("ab", "a"),
        13 => no!("ab", "ab/c"),
        14 => no!("ab", "abc/#"),
        15 => yes!("ab", "ab"),
        16 => no!("ab/?", "abc/x"),
        17 => no!("ab/?", "a/x"),
        18 => no!("ab/?", "ab/x/y"),
        19 => yes!("ab/?", "ab/x"),
        20 => yes!("ab/?", "ab/xy"),
        21 => no!("?/ab", "x/abc"),
        22 => no!("?/ab", "x/a"),
        23 => yes!("?/ab", "x/ab"),
        24 => no!("a/ab/#", "a/abc/x"),
        25 => no!("a/ab/#", "a/a/x"),
        _ => yes!("a/ab/#", "a/ab/x"),
    }
    kani::cover!(sel == 26);
}
