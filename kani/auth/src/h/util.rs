// @module auth::h
pub(crate) fn s(x: &str) -> String {
    x.to_owned()
}
pub(crate) fn stub_format(_args: core::fmt::Arguments<'_>) -> String {
    String::new()
}
pub(crate) fn stub_mu_write<T>(this: &mut core::mem::MaybeUninit<T>, val: T) -> &mut T {
    let p = this.as_mut_ptr();
    unsafe {
        p.write(val);
        &mut *p
    }
}
