// @module h
// C11  A follower converges to the leader's data.
//
// One-step simulation relation on two REAL cores: leader L and follower F start with equal user keys (concrete
// shape, solver-chosen contents); one client request (or session end, or follower join) is pushed through the
// leader's forwarding code (`try_forward_api_call` / `try_forward_grave_goods_change` / `try_forward_last_will_change`
// / `try_forward_follower_connected`, sliced verbatim from leader.rs and lib.rs); every command that reaches the
// follower's ordered channel is applied with the follower's `process_leader_message` / `initial_sync`
// (follower.rs); then both cores must answer the same reads. Transports (TCP, line codec) are outside.
use crate::leader_follower::follower::x::{leader_message as process_leader_message, sync as initial_sync};
use crate::leader_follower::leader::x::{api_call as try_forward_api_call, follower_connected as try_forward_follower_connected, grave_goods_change as try_forward_grave_goods_change, last_will_change as try_forward_last_will_change};
use crate::leader_follower::{ClientWriteCommand, LeaderSyncMessage, StateSync};
use crate::store::h::{n0, n1, n2, E};
use crate::worterbuch::h::{cid, gg, lw, plain, s, stub_capture_handler, stub_format, stub_memchr, stub_mu_write, stub_result_ok, wb_from, wb_set_clients2};
use tokio::sync::oneshot;
use tracing::Span;
use worterbuch_common::{Value, ValueEntry};

macro_rules! c11h {
    ($name:ident, $body:expr) => {
        #[kani::proof]
        #[kani::unwind(6)]
        #[kani::stub(std::mem::MaybeUninit::write, stub_mu_write)]
        #[kani::stub(std::fmt::format, stub_format)]
        #[kani::stub(::miette::eyreish::capture_handler, stub_capture_handler)]
        #[kani::stub(core::slice::memchr::memchr, stub_memchr)]
        #[kani::stub(std::result::Result::ok, stub_result_ok)]
        fn $name() {
            $body
        }
    };
}

type Txs = Vec<(usize, mpsc::Sender<ClientWriteCommand>)>;

fn follower_channel() -> (Txs, mpsc::Receiver<ClientWriteCommand>) {
    let (tx, rx) = mpsc::channel::<ClientWriteCommand>(4);
    let mut v: Txs = Vec::with_capacity(1);
    v.push((0, tx));
    (v, rx)
}
/// apply everything the leader queued for the follower, in order
fn drain_to_follower(rx: &mut mpsc::Receiver<ClientWriteCommand>, f: &mut Worterbuch) -> usize {
    let mut n = 0;
    while n < 4 {
        match rx.try_recv() {
            Ok(cmd) => {
                let r = process_leader_message(LeaderSyncMessage::Mut(cmd), f);
                assert!(r.is_ok(), "C11: a forwarded command is processed by the follower");
                core::mem::forget(r);
                n += 1;
            }
            Err(_) => break,
        }
    }
    n
}
/// both cores answer get / cget of `key` identically (value, and CAS version)
fn same_key(l: &Worterbuch, f: &Worterbuch, key: &str) {
    let gl = l.cget(&s(key));
    let gf = f.cget(&s(key));
    let same = match (&gl, &gf) {
        (Ok((vl, nl)), Ok((vf, nf))) => vl.as_bool() == vf.as_bool() && vl.as_bool().is_some() && nl == nf,
        (Err(_), Err(_)) => true,
        _ => false,
    };
    core::mem::forget(gl);
    core::mem::forget(gf);
    assert!(same, "C11: follower and leader hold the same value and CAS version for every user key");
}

const SET: u8 = 0;
const CSET: u8 = 1;
const DELETE: u8 = 2;
const PDELETE: u8 = 3;
/// shape {a: plain or CAS, b: plain} on both sides; one client write on the leader
fn c11_write(kind: u8, a_cas: bool) {
    let ea = E::any(a_cas);
    let eb = E::any(false);
    let mut l = wb_from(n2(None, "a", n0(Some(ea.entry())), "b", n0(Some(eb.entry()))), 2);
    let mut f = wb_from(n2(None, "a", n0(Some(ea.entry())), "b", n0(Some(eb.entry()))), 2);
    let (mut txs, mut rx) = follower_channel();
    let mut dead: Vec<usize> = Vec::new();
    let nb: bool = kani::any();
    let function = if kind == SET {
        WbFunction::Set(s("a"), Value::Bool(nb), cid(1), oneshot::channel().0, Span::none())
    } else if kind == CSET {
        // literal versions: 0 (stale for a CAS entry, current for a plain one)
        WbFunction::CSet(s("a"), Value::Bool(nb), 0, cid(1), oneshot::channel().0)
    } else if kind == DELETE {
        WbFunction::Delete(s("a"), cid(1), oneshot::channel().0)
    } else {
        WbFunction::PDelete(s("?"), cid(1), oneshot::channel().0)
    };
    let r = try_forward_api_call(Some(function), &mut l, &mut txs, &mut dead);
    assert!(r.is_ok(), "C11: the leader processes the request");
    core::mem::forget(r);
    let n = drain_to_follower(&mut rx, &mut f);
    assert!(n == 1, "C11: a client write is mirrored to the follower exactly once");
    same_key(&l, &f, "a");
    same_key(&l, &f, "b");
    assert!(l.len() == f.len(), "C11: same number of entries on both sides");
    kani::cover!(true);
    core::mem::forget(l);
    core::mem::forget(f);
}
// @h props=C11 tier=quick cap=900 desc="client set on the leader (plain key): mirrored once, follower holds the same values" bounds="keys a,b; values Bool"
c11h!(c11_set_plain, c11_write(SET, false));
// @h props=C11 tier=quick cap=900 desc="client set on a CAS key (rejected on the leader, any version): follower rejects it too, nothing diverges" bounds="keys a,b; version u64"
c11h!(c11_set_on_cas_rejected, c11_write(SET, true));
// @h props=C11 tier=quick cap=900 desc="client cset version 0 on a plain key (accepted): follower ends with the same CAS version" bounds="keys a,b"
c11h!(c11_cset_accepted, c11_write(CSET, false));
// @h props=C11 tier=quick cap=900 desc="client delete on the leader: mirrored, same entries" bounds="keys a,b"
c11h!(c11_delete, c11_write(DELETE, false));
// @h props=C11 tier=quick cap=900 desc="client pdelete ? on the leader: mirrored, both sides empty" bounds="keys a,b"
c11h!(c11_pdelete, c11_write(PDELETE, true));

// ---------------------------------------------------------------- session end on the leader
// L: client c1 with grave goods [a/x] and last will {a/y: w}; user keys a/x, a/y on both sides; the follower
// has received the registrations earlier (they are forwarded as ordinary sets), so F's $SYS holds them too.
// The leader's two internal subscriptions (grave goods / last will registrations) exist as in run_in_leader_mode.
// @h props=C11 tier=quick cap=2400 mem=20 autounwind=80 desc="session end of a client with grave goods and last will on the leader: after the follower applied everything it was sent, both hold the same user keys" bounds="1 client; keys a/x, a/y"
c11h!(c11_session_end, {
    let xb: bool = kani::any();
    let yb: bool = kani::any();
    let will: bool = kani::any();
    const ID1: &str = "00000000-0000-0000-0000-000000000001";
    let mk = || {
        let c1 = n2(None, "graveGoods", n0(plain(gg("a/x"))), "lastWill", n0(plain(lw("a/y", will))));
        wb_from(
            n2(None, "$SYS", n1(None, "clients", n1(plain(Value::Number(1)), ID1, c1)), "a", n2(None, "x", n0(plain(Value::Bool(xb))), "y", n0(plain(Value::Bool(yb))))),
            5,
        )
    };
    let mut l = mk();
    let mut f = mk();
    wb_set_clients2(&mut l);
    let ggr = l.psubscribe(INTERNAL_CLIENT_ID, 0, s("$SYS/clients/?/graveGoods"), true, true);
    let lwr = l.psubscribe(INTERNAL_CLIENT_ID, 0, s("$SYS/clients/?/lastWill"), true, true);
    let (mut gg_rx, mut lw_rx) = match (ggr, lwr) {
        (Ok(a), Ok(b)) => (a.0, b.0),
        _ => {
            assert!(false, "C11: leader's internal subscriptions");
            return;
        }
    };
    let (mut txs, mut rx) = follower_channel();
    let mut dead: Vec<usize> = Vec::new();
    let r = try_forward_api_call(Some(WbFunction::Disconnected(cid(1), None)), &mut l, &mut txs, &mut dead);
    assert!(r.is_ok(), "C11: the leader processes the session end");
    core::mem::forget(r);
    // the leader loop forwards what its internal subscriptions saw
    let e1 = gg_rx.try_recv().ok();
    if e1.is_some() {
        let r = try_forward_grave_goods_change(e1, &mut txs, &mut dead);
        core::mem::forget(r);
    }
    let e2 = lw_rx.try_recv().ok();
    if e2.is_some() {
        let r = try_forward_last_will_change(e2, &mut txs, &mut dead);
        core::mem::forget(r);
    }
    drain_to_follower(&mut rx, &mut f);
    // the leader buried a/x and set a/y = will; the follower must hold the same user keys
    let lx = l.get(&s("a/x"));
    assert!(lx.is_err(), "C07: the leader buried the grave goods");
    core::mem::forget(lx);
    let fx = f.get(&s("a/x"));
    assert!(fx.is_err(), "[KF-C11-session-end-not-replicated] C11: keys buried on the leader at session end still exist on the follower");
    core::mem::forget(fx);
    let fy = f.get(&s("a/y"));
    assert!(matches!(&fy, Ok(v) if v.as_bool() == Some(will)), "[KF-C11-session-end-not-replicated] C11: the last will published on the leader is missing on the follower");
    core::mem::forget(fy);
    kani::cover!(true);
    core::mem::forget(l);
    core::mem::forget(f);
});

// ---------------------------------------------------------------- a follower joins
// @h props=C11 tier=quick cap=2400 mem=20 autounwind=80 desc="follower joins a leader that has a client with registered grave goods: state transfer gives it the user keys AND the registrations" bounds="1 client; key a"
c11h!(c11_join, {
    const ID1: &str = "00000000-0000-0000-0000-000000000001";
    let ea = E::any(true);
    let c1 = n1(None, "graveGoods", n0(plain(gg("a"))));
    let mut l = wb_from(n2(None, "$SYS", n1(None, "clients", n1(plain(Value::Number(1)), ID1, c1)), "a", n0(Some(ea.entry()))), 3);
    let mut f = wb_from(n0(None), 0);
    let (state_tx, mut state_rx) = oneshot::channel::<(StateSync, mpsc::Receiver<ClientWriteCommand>)>();
    let mut txs: Txs = Vec::with_capacity(1);
    let mut tx_id = 0usize;
    let config = l.config().clone();
    let r = try_forward_follower_connected(Some(state_tx), &mut l, &mut txs, &config, &mut tx_id);
    assert!(r.is_ok() && txs.len() == 1 && tx_id == 1, "C11: state export and channel registration happen in the same turn");
    core::mem::forget(r);
    let (state, _rx) = match state_rx.try_recv() {
        Ok(x) => x,
        Err(_) => {
            assert!(false, "C11: the joining follower is sent the state");
            return;
        }
    };
    assert!(state.1.len() == 1, "C11: the state transfer carries the grave goods of connected clients");
    let r = initial_sync(state, &mut f);
    assert!(r.is_ok(), "C11: initial sync succeeds");
    core::mem::forget(r);
    same_key(&l, &f, "a");
    let fg = f.grave_goods_len();
    assert!(fg == 1, "[KF-C11-join-drops-registrations] C11: a follower that joins after a client registered grave goods does not know them (they would be lost at promotion)");
    kani::cover!(true);
    core::mem::forget(l);
    core::mem::forget(f);
});

// ---------------------------------------------------------------- the follower refuses writes
// @h props=C11 tier=quick cap=900 desc="every write offered to the follower directly is answered NotLeader and changes nothing (set, cset any version, delete, pdelete, publish)" bounds="key a"
c11h!(c11_follower_refuses, {
    use crate::leader_follower::follower::x::api_call as follower_api;
    let ea = E::any(false);
    let mut f = wb_from(n1(None, "a", n0(Some(ea.entry()))), 1);
    let nb: bool = kani::any();
    let ver: u64 = kani::any();
    let (t1, mut r1) = oneshot::channel();
    follower_api(&mut f, WbFunction::Set(s("a"), Value::Bool(nb), cid(1), t1, Span::none()));
    let (t2, mut r2) = oneshot::channel();
    follower_api(&mut f, WbFunction::CSet(s("a"), Value::Bool(nb), ver, cid(1), t2));
    let (t3, mut r3) = oneshot::channel();
    follower_api(&mut f, WbFunction::Delete(s("a"), cid(1), t3));
    let (t4, mut r4) = oneshot::channel();
    follower_api(&mut f, WbFunction::PDelete(s("#"), cid(1), t4));
    let (t5, mut r5) = oneshot::channel();
    follower_api(&mut f, WbFunction::Publish(s("a"), Value::Bool(nb), t5));
    let a1 = r1.try_recv();
    let a2 = r2.try_recv();
    let a3 = r3.try_recv();
    let a4 = r4.try_recv();
    let a5 = r5.try_recv();
    assert!(matches!(&a1, Ok(Err(WorterbuchError::NotLeader))), "C11: set on a follower is refused");
    assert!(matches!(&a2, Ok(Err(WorterbuchError::NotLeader))), "C11: cset on a follower is refused");
    assert!(matches!(&a3, Ok(Err(WorterbuchError::NotLeader))), "C11: delete on a follower is refused");
    assert!(matches!(&a4, Ok(Err(WorterbuchError::NotLeader))), "C11: pdelete on a follower is refused");
    assert!(matches!(&a5, Ok(Err(WorterbuchError::NotLeader))), "C11: publish on a follower is refused");
    core::mem::forget((a1, a2, a3, a4, a5));
    let g = f.get(&s("a"));
    assert!(matches!(&g, Ok(v) if v.as_bool() == Some(ea.b)), "C11: refused writes change nothing");
    core::mem::forget(g);
    kani::cover!(true);
    core::mem::forget(f);
});
