// @module h
// C11  A follower converges to the leader's data.
//
// One-step simulation relation on two REAL cores: leader L and follower F start with equal user keys (concrete
// shape, solver-chosen contents); one client request (or session end, or follower join) is pushed through the
// leader's forwarding code (`try_forward_api_call` / `try_forward_grave_goods_change` / `try_forward_last_will_change`
// / `try_forward_follower_connected`, sliced verbatim from leader.rs and lib.rs); every command that reaches the
// follower's ordered channel is applied with the follower's `process_leader_message` / `initial_sync`
// (follower.rs); then both cores must answer the same reads. Transports (TCP, line codec) are outside.
use crate::leader_follower::follower::x::{leader_message as process_leader_message, sync as initial_sync};
use crate::leader_follower::leader::x::{api_call as try_forward_api_call, follower_connected as try_forward_follower_connected, grave_goods_change as try_forward_grave_goods_change, last_will_change as try_forward_last_will_change};
use crate::leader_follower::{ClientWriteCommand, LeaderSyncMessage, StateSync};
use crate::store::h::{n0, n1, n2, E};
use crate::worterbuch::h::{cid, gg, lw, plain, s, stub_capture_handler, stub_format, stub_memchr, stub_mu_write, stub_result_ok, wb_from, wb_set_clients2};
use tokio::sync::oneshot;
use tracing::Span;
use worterbuch_common::{Value, ValueEntry};

macro_rules! c11h {
    ($name:ident, $body:expr) => {
        #[kani::proof]
        #[kani::unwind(6)]
        #[kani::stub(std::mem::MaybeUninit::write, stub_mu_write)]
        #[kani::stub(std::fmt::format, stub_format)]
        #[kani::stub(::miette::eyreish::capture_handler, stub_capture_handler)]
        #[kani::stub(core::slice::memchr::memchr, stub_memchr)]
        #[kani::stub(std::result::Result::ok, stub_result_ok)]
        fn $name() {
            $body
        }
    };
}

type Txs = Vec<(usize, mpsc::Sender<ClientWriteCommand>)>;

fn follower_channel() -> (Txs, mpsc::Receiver<ClientWriteCommand>) {
    let (tx, rx) = mpsc::channel::<ClientWriteCommand>(4);
    let mut v: Txs = Vec::with_capacity(1);
    v.push((0, tx));
    (v, rx)
}
/// apply everything the leader queued for the follower, in order
fn drain_to_follower(rx: &mut mpsc::Receiver<ClientWriteCommand>, f: &mut Worterbuch) -> usize {
    let mut n = 0;
    while n < 4 {
        match rx.try_recv() {
            Ok(cmd) => {
                let r = process_leader_message(LeaderSyncMessage::Mut(cmd), f);
                assert!(r.is_ok(), "C11: a forwarded command is processed by the follower");
                core::mem::forget(r);
                n += 1;
            }
            Err(_) => break,
        }
    }
    n
}
/// both cores answer get / cget of `key` identically (value, and CAS version)
fn same_key(l: &Worterbuch, f: &Worterbuch, key: &str) {
    let gl = l.cget(&s(key));
    let gf = f.cget(&s(key));
    let same = match (&gl, &gf) {
        (Ok((vl, nl)), Ok((vf, nf))) => vl.as_bool() == vf.as_bool() && vl.as_bool().is_some() && nl == nf,
        (Err(_), Err(_)) => true,
        _ => false,
    };
    core::mem::forget(gl);
    core::mem::forget(gf);
    assert!(same, "C11: follower and leader hold the same value and CAS version for every user key");
}

const SET: u8 = 0;
const CSET: u8 = 1;
const DELETE: u8 = 2;
const PDELETE: u8 = 3;
// A client write on the leader is decomposed into two steps that share the command as interface (the giant
// `process_api_call` dispatch over `Option<WbFunction>` - a 27-variant union whose tag CBMC does not fold - runs every
// arm of the core at once and exhausts memory: 9 harnesses x 45 GB, measured):
//   (1) MAPPING   the real `forward_api_call` (lib.rs) on a concrete request with solver-chosen payload: exactly one
//                 command of the expected kind and payload is queued for every follower; reads and session calls queue none;
//   (2) APPLY     leader core: the call `process_api_call` makes for that request (`wb.set(k, v, client, false)` ...);
//                 follower core: the real `process_leader_message(Mut(<the command of step 1>))`; afterwards both cores
//                 answer the same reads - whatever the leader decided (accepted or rejected).
// Outside: that `process_api_call` calls exactly that core method (6 lines of glue, read).

/// (1) the command the leader queues for a request
fn c11_map(kind: u8) {
    let (mut txs, mut rx) = follower_channel();
    let mut dead: Vec<usize> = Vec::new();
    let nb: bool = kani::any();
    let ver: u64 = kani::any();
    let function = if kind == SET {
        WbFunction::Set(s("a"), Value::Bool(nb), cid(1), oneshot::channel().0, Span::none())
    } else if kind == CSET {
        WbFunction::CSet(s("a"), Value::Bool(nb), ver, cid(1), oneshot::channel().0)
    } else if kind == DELETE {
        WbFunction::Delete(s("a"), cid(1), oneshot::channel().0)
    } else if kind == PDELETE {
        WbFunction::PDelete(s("?"), cid(1), oneshot::channel().0)
    } else if kind == 4 {
        WbFunction::Get(s("a"), oneshot::channel().0)
    } else {
        WbFunction::Disconnected(cid(1), None)
    };
    crate::forward_api_call_now(&mut txs, &mut dead, &function, true);
    core::mem::forget(function);
    let first = rx.try_recv();
    match &first {
        Ok(ClientWriteCommand::Set(k, v, force)) => {
            assert!(kind == SET, "C11: only a set is mirrored as a set");
            assert!(k.len() == 1 && k.as_bytes()[0] == b'a' && v.as_bool() == Some(nb) && !*force, "C11: the mirrored set carries the client's key and value and is not forced (the follower decides like the leader did)");
        }
        Ok(ClientWriteCommand::CSet(k, v, n, force)) => {
            assert!(kind == CSET, "C11: only a cset is mirrored as a cset");
            assert!(k.len() == 1 && k.as_bytes()[0] == b'a' && v.as_bool() == Some(nb) && *n == ver && !*force, "C11: the mirrored cset carries the client's key, value and version and is not forced");
        }
        Ok(ClientWriteCommand::Delete(k)) => {
            assert!(kind == DELETE && k.len() == 1 && k.as_bytes()[0] == b'a', "C11: only a delete is mirrored as a delete, with its key");
        }
        Ok(ClientWriteCommand::PDelete(k)) => {
            assert!(kind == PDELETE && k.len() == 1 && k.as_bytes()[0] == b'?', "C11: only a pdelete is mirrored as a pdelete, with its pattern");
        }
        Err(_) => assert!(kind >= 4, "C11: every client write is mirrored to the follower"),
    }
    core::mem::forget(first);
    let second = rx.try_recv();
    assert!(second.is_err(), "C11: ... exactly once");
    core::mem::forget(second);
    kani::cover!(true);
}
/// (2) shape {a: plain or CAS, b: plain} on both sides; the leader applies the client's request, the follower the command
fn c11_apply(kind: u8, a_cas: bool, ver: u64) {
    let mut ea = E::any(a_cas);
    if kind == CSET {
        // the accept/reject decision compares with the version read back from the tree, which the engine does not
        // fold: literal stored version (all 2^64 x 2^64 version pairs of that decision are C02's)
        ea.ver = 3;
    }
    let eb = E::any(false);
    let mut l = wb_from(n2(None, "a", n0(Some(ea.entry())), "b", n0(Some(eb.entry()))), 2);
    let mut f = wb_from(n2(None, "a", n0(Some(ea.entry())), "b", n0(Some(eb.entry()))), 2);
    let nb: bool = kani::any();
    let cmd = if kind == SET {
        let r = aw!(l.set(s("a"), Value::Bool(nb), cid(1), false));
        core::mem::forget(r);
        ClientWriteCommand::Set(s("a"), Value::Bool(nb), false)
    } else if kind == CSET {
        let r = aw!(l.cset(s("a"), Value::Bool(nb), ver, cid(1), false));
        core::mem::forget(r);
        ClientWriteCommand::CSet(s("a"), Value::Bool(nb), ver, false)
    } else if kind == DELETE {
        let r = aw!(l.delete(s("a"), cid(1)));
        core::mem::forget(r);
        ClientWriteCommand::Delete(s("a"))
    } else {
        let r = aw!(l.pdelete(s("?"), cid(1)));
        core::mem::forget(r);
        ClientWriteCommand::PDelete(s("?"))
    };
    let r = process_leader_message(LeaderSyncMessage::Mut(cmd), &mut f);
    assert!(r.is_ok(), "C11: a forwarded command is processed by the follower");
    core::mem::forget(r);
    same_key(&l, &f, "a");
    same_key(&l, &f, "b");
    assert!(l.len() == f.len(), "C11: same number of entries on both sides");
    kani::cover!(true);
    core::mem::forget(l);
    core::mem::forget(f);
}
// @h props=C11 tier=quick cap=900 desc="mapping: client set -> one unforced Set command with the client's key and value" bounds="value Bool"
c11h!(c11_map_set, c11_map(SET));
// @h props=C11 tier=quick cap=900 desc="mapping: client cset -> one unforced CSet command with key, value and version" bounds="value Bool; version u64"
c11h!(c11_map_cset, c11_map(CSET));
// @h props=C11 tier=quick cap=900 desc="mapping: client delete -> one Delete command" bounds="key a"
c11h!(c11_map_delete, c11_map(DELETE));
// @h props=C11 tier=quick cap=900 desc="mapping: client pdelete -> one PDelete command" bounds="pattern ?"
c11h!(c11_map_pdelete, c11_map(PDELETE));
// @h props=C11 tier=quick cap=900 desc="mapping: reads and session calls (get, disconnected) queue nothing" bounds="2 kinds"
c11h!(c11_map_reads, {
    let g: bool = kani::any();
    if g { c11_map(4) } else { c11_map(5) }
});
// @h props=C11 tier=quick cap=900 desc="apply: set on a plain key - leader and follower end equal" bounds="keys a,b; values Bool"
c11h!(c11_set_plain, c11_apply(SET, false, 0));
// @h props=C11 tier=quick cap=900 desc="apply: set on a CAS key (rejected on the leader, any stored version): follower rejects it too" bounds="keys a,b; version u64"
c11h!(c11_set_on_cas_rejected, c11_apply(SET, true, 0));
// @h props=C11 tier=manual cap=900 desc="apply: cset version 0 on a plain key (accepted): follower ends with the same CAS version" bounds="keys a,b"
c11h!(c11_cset_accepted, c11_apply(CSET, false, 0));
// @h props=C11 tier=manual cap=900 desc="apply: cset with the current version 3 on CAS(3) (accepted): both sides at version 4 with the new value" bounds="keys a,b; stored version 3"
c11h!(c11_cset_on_cas_current, c11_apply(CSET, true, 3));
// @h props=C11 tier=manual cap=900 desc="apply: cset with the stale version 0 on CAS(3) (rejected on the leader): the follower rejects it too" bounds="keys a,b; stored version 3"
c11h!(c11_cset_on_cas_stale, c11_apply(CSET, true, 0));
// @h props=C11 tier=manual cap=900 desc="apply: cset version 7 on an absent-as-CAS plain key (rejected): both sides unchanged" bounds="keys a,b"
c11h!(c11_cset_stale_on_plain, c11_apply(CSET, false, 7));
// @h props=C11 tier=quick cap=900 desc="apply: delete" bounds="keys a,b"
c11h!(c11_delete, c11_apply(DELETE, false, 0));
// @h props=C11 tier=quick cap=900 desc="apply: pdelete ? - both sides empty" bounds="keys a,b"
c11h!(c11_pdelete, c11_apply(PDELETE, true, 0));

// ---------------------------------------------------------------- session end on the leader
// L: client c1 with grave goods [a/x] and last will {a/y: w}; user keys a/x, a/y on both sides; the follower
// has received the registrations earlier (they are forwarded as ordinary sets), so F's $SYS holds them too.
// The leader's two internal subscriptions (grave goods / last will registrations) exist as in run_in_leader_mode.
// @h props=C11 tier=manual cap=2400 mem=20 autounwind=80 desc="session end of a client with grave goods and last will on the leader: after the follower applied everything it was sent, both hold the same user keys" bounds="1 client; keys a/x, a/y"
c11h!(c11_session_end, {
    let xb: bool = kani::any();
    let yb: bool = kani::any();
    let will: bool = kani::any();
    const ID1: &str = "00000000-0000-0000-0000-000000000001";
    let mk = || {
        let c1 = n2(None, "graveGoods", n0(plain(gg("a/x"))), "lastWill", n0(plain(lw("a/y", will))));
        wb_from(
            n2(None, "$SYS", n1(None, "clients", n1(plain(crate::worterbuch::h::vnum(1)), ID1, c1)), "a", n2(None, "x", n0(plain(Value::Bool(xb))), "y", n0(plain(Value::Bool(yb))))),
            5,
        )
    };
    let mut l = mk();
    let mut f = mk();
    wb_set_clients2(&mut l);
    let ggr = aw!(l.psubscribe(INTERNAL_CLIENT_ID, 0, s("$SYS/clients/?/graveGoods"), true, true));
    let lwr = aw!(l.psubscribe(INTERNAL_CLIENT_ID, 0, s("$SYS/clients/?/lastWill"), true, true));
    let (mut gg_rx, mut lw_rx) = match (ggr, lwr) {
        (Ok(a), Ok(b)) => (a.0, b.0),
        _ => {
            assert!(false, "C11: leader's internal subscriptions");
            return;
        }
    };
    let (mut txs, mut rx) = follower_channel();
    let mut dead: Vec<usize> = Vec::new();
    let r = try_forward_api_call(Some(WbFunction::Disconnected(cid(1), None)), &mut l, &mut txs, &mut dead);
    assert!(r.is_ok(), "C11: the leader processes the session end");
    core::mem::forget(r);
    // the leader loop forwards what its internal subscriptions saw
    let e1 = gg_rx.try_recv().ok();
    if e1.is_some() {
        let r = try_forward_grave_goods_change(e1, &mut txs, &mut dead);
        core::mem::forget(r);
    }
    let e2 = lw_rx.try_recv().ok();
    if e2.is_some() {
        let r = try_forward_last_will_change(e2, &mut txs, &mut dead);
        core::mem::forget(r);
    }
    drain_to_follower(&mut rx, &mut f);
    // the leader buried a/x and set a/y = will; the follower must hold the same user keys
    let lx = l.get(&s("a/x"));
    assert!(lx.is_err(), "C07: the leader buried the grave goods");
    core::mem::forget(lx);
    let fx = f.get(&s("a/x"));
    assert!(fx.is_err(), "[KF-C11-session-end-not-replicated] C11: keys buried on the leader at session end still exist on the follower");
    core::mem::forget(fx);
    let fy = f.get(&s("a/y"));
    assert!(matches!(&fy, Ok(v) if v.as_bool() == Some(will)), "[KF-C11-session-end-not-replicated] C11: the last will published on the leader is missing on the follower");
    core::mem::forget(fy);
    kani::cover!(true);
    core::mem::forget(l);
    core::mem::forget(f);
});

// ---------------------------------------------------------------- a follower joins
// @h props=C11 tier=quick cap=2400 mem=20 autounwind=80 desc="follower joins a leader that has a client with registered grave goods: state transfer gives it the user keys AND the registrations" bounds="1 client; key a"
c11h!(c11_join, {
    const ID1: &str = "00000000-0000-0000-0000-000000000001";
    let ea = E::any(true);
    let c1 = n1(None, "graveGoods", n0(plain(gg("a"))));
    let mut l = wb_from(n2(None, "$SYS", n1(None, "clients", n1(plain(crate::worterbuch::h::vnum(1)), ID1, c1)), "a", n0(Some(ea.entry()))), 3);
    let mut f = wb_from(n0(None), 0);
    let (state_tx, mut state_rx) = oneshot::channel::<(StateSync, mpsc::Receiver<ClientWriteCommand>)>();
    let mut txs: Txs = Vec::with_capacity(1);
    let mut tx_id = 0usize;
    let config = l.config().clone();
    let r = try_forward_follower_connected(Some(state_tx), &mut l, &mut txs, &config, &mut tx_id);
    assert!(r.is_ok() && txs.len() == 1 && tx_id == 1, "C11: state export and channel registration happen in the same turn");
    core::mem::forget(r);
    let (state, _rx) = match state_rx.try_recv() {
        Ok(x) => x,
        Err(_) => {
            assert!(false, "C11: the joining follower is sent the state");
            return;
        }
    };
    assert!(state.1.len() == 1, "C11: the state transfer carries the grave goods of connected clients");
    let r = initial_sync(state, &mut f);
    assert!(r.is_ok(), "C11: initial sync succeeds");
    core::mem::forget(r);
    same_key(&l, &f, "a");
    let fg = f.grave_goods_len();
    assert!(fg == 1, "[KF-C11-join-drops-registrations] C11: a follower that joins after a client registered grave goods does not know them (they would be lost at promotion)");
    kani::cover!(true);
    core::mem::forget(l);
    core::mem::forget(f);
});

// ---------------------------------------------------------------- the follower refuses writes
// @h props=C11 tier=manual cap=900 desc="every write offered to the follower directly is answered NotLeader and changes nothing (set, cset any version, delete, pdelete, publish)" bounds="key a"
c11h!(c11_follower_refuses, {
    use crate::leader_follower::follower::x::api_call as follower_api;
    let ea = E::any(false);
    let mut f = wb_from(n1(None, "a", n0(Some(ea.entry()))), 1);
    let nb: bool = kani::any();
    let ver: u64 = kani::any();
    let (t1, mut r1) = oneshot::channel();
    follower_api(&mut f, WbFunction::Set(s("a"), Value::Bool(nb), cid(1), t1, Span::none()));
    let (t2, mut r2) = oneshot::channel();
    follower_api(&mut f, WbFunction::CSet(s("a"), Value::Bool(nb), ver, cid(1), t2));
    let (t3, mut r3) = oneshot::channel();
    follower_api(&mut f, WbFunction::Delete(s("a"), cid(1), t3));
    let (t4, mut r4) = oneshot::channel();
    follower_api(&mut f, WbFunction::PDelete(s("#"), cid(1), t4));
    let (t5, mut r5) = oneshot::channel();
    follower_api(&mut f, WbFunction::Publish(s("a"), Value::Bool(nb), t5));
    let a1 = r1.try_recv();
    let a2 = r2.try_recv();
    let a3 = r3.try_recv();
    let a4 = r4.try_recv();
    let a5 = r5.try_recv();
    assert!(matches!(&a1, Ok(Err(WorterbuchError::NotLeader))), "C11: set on a follower is refused");
    assert!(matches!(&a2, Ok(Err(WorterbuchError::NotLeader))), "C11: cset on a follower is refused");
    assert!(matches!(&a3, Ok(Err(WorterbuchError::NotLeader))), "C11: delete on a follower is refused");
    assert!(matches!(&a4, Ok(Err(WorterbuchError::NotLeader))), "C11: pdelete on a follower is refused");
    assert!(matches!(&a5, Ok(Err(WorterbuchError::NotLeader))), "C11: publish on a follower is refused");
    core::mem::forget((a1, a2, a3, a4, a5));
    let g = f.get(&s("a"));
    assert!(matches!(&g, Ok(v) if v.as_bool() == Some(ea.b)), "C11: refused writes change nothing");
    core::mem::forget(g);
    kani::cover!(true);
    core::mem::forget(f);
});
