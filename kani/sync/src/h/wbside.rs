// @module worterbuch::h
// helpers of the C11 harnesses that need the private fields of `Worterbuch`
use crate::store::h::{n0, n1, n2, store_of, E};

pub(crate) fn wb_from(data: StoreNode, len: usize) -> Worterbuch {
    let mut wb = Worterbuch::with_config(cfg());
    wb.store = store_of(data, len);
    wb
}
pub(crate) fn wb_set_clients2(wb: &mut Worterbuch) {
    wb.clients = HashMap::from_slots([Some((cid(1), ClientInfo::new())), Some((cid(2), ClientInfo::new()))]);
}
pub(crate) fn plain(v: Value) -> Option<ValueEntry> {
    Some(ValueEntry::Plain(v))
}
pub(crate) fn gg(pattern: &str) -> Value {
    Value::Array(vec![Value::String(s(pattern))])
}
pub(crate) fn lw(key: &str, b: bool) -> Value {
    Value::Array(vec![vobj2("key", Value::String(s(key)), "value", Value::Bool(b))])
}
impl Worterbuch {
    /// number of grave-goods patterns this core knows (private `grave_goods()` of worterbuch.rs)
    pub(crate) fn grave_goods_len(&self) -> usize {
        let g = self.grave_goods();
        let n = g.len();
        core::mem::forget(g);
        n
    }
}
