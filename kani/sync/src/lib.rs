//! Harness crate "sync" (C11): the core (store.rs, subscribers.rs, worterbuch.rs, de-sugared) plus the
//! leader / follower synchronisation functions sliced verbatim out of worterbuch/src/lib.rs,
//! leader_follower/{mod,leader,follower}.rs and server/common/mod.rs (gen/slice.py), against the
//! environment models. Transports (TCP sync stream, subsystems) are outside.
#![allow(dead_code, unused_imports, unused_variables, unused_mut, clippy::all)]

macro_rules! src {
    ("store.rs") => { include!("/verif/kani/sync/gen/store.rs"); };
    ("subscribers.rs") => { include!("/verif/kani/sync/gen/subscribers.rs"); };
    ("worterbuch.rs") => { include!("/verif/kani/sync/gen/worterbuch.rs"); };
    ("config.rs") => { include!("/verif/kani/sync/gen/config.rs"); };
    ("persistence.rs") => { include!("/verif/kani/sync/gen/persistence.rs"); };
}
macro_rules! model_prelude {
    () => { use tokio::Now as _; };
}
macro_rules! aw {
    ($e:expr) => { $e };
}
/// `topic!` without core::fmt (see /verif/gen/deasync.py): the pieces are concatenated with '/' exactly as
/// worterbuch_common::topic! does, each piece rendered as its `Display` would render it.
macro_rules! vtopic {
    ($first:expr $(, $rest:expr)*) => {{
        let mut s = String::new();
        $crate::topic_model::TopicPiece::push_to(&$first, &mut s);
        $(
            s.push('/');
            $crate::topic_model::TopicPiece::push_to(&$rest, &mut s);
        )*
        s
    }};
}
pub mod topic_model {
    use worterbuch_common::{ClientId, KeySegment};
    pub trait TopicPiece {
        fn push_to(&self, s: &mut String);
    }
    impl<T: TopicPiece + ?Sized> TopicPiece for &T {
        fn push_to(&self, s: &mut String) {
            (**self).push_to(s)
        }
    }
    impl TopicPiece for str {
        fn push_to(&self, s: &mut String) {
            s.push_str(self)
        }
    }
    impl TopicPiece for String {
        fn push_to(&self, s: &mut String) {
            s.push_str(self)
        }
    }
    impl TopicPiece for KeySegment {
        fn push_to(&self, s: &mut String) {
            s.push_str(self.as_ref())
        }
    }
    /// `Display` of a Uuid: lower-case hex, hyphenated 8-4-4-4-12
    impl TopicPiece for ClientId {
        fn push_to(&self, s: &mut String) {
            const HEX: &[u8; 16] = b"0123456789abcdef";
            let b = self.as_bytes();
            // (unrolled: a 16-iteration loop would need its own unwinding bound in every harness)
            macro_rules! hx {
                ($i:expr) => {
                    s.push(HEX[(b[$i] >> 4) as usize] as char);
                    s.push(HEX[(b[$i] & 0xf) as usize] as char);
                };
            }
            hx!(0); hx!(1); hx!(2); hx!(3);
            s.push('-');
            hx!(4); hx!(5);
            s.push('-');
            hx!(6); hx!(7);
            s.push('-');
            hx!(8); hx!(9);
            s.push('-');
            hx!(10); hx!(11); hx!(12); hx!(13); hx!(14); hx!(15);
        }
    }
}
macro_rules! wb_harnesses {
    () => {
        include!("/verif/kani/sync/src/h/wbside.rs");
    };
}
include!("/verif/kani/wb/src/body_core.rs");

pub use config::Config;
pub use worterbuch::Worterbuch;

pub mod error {
    include!("/repo/worterbuch/src/error.rs");
}
pub mod server {
    pub mod common {
        use tokio::sync::{mpsc, oneshot};
        use tracing::Span;
        use worterbuch_common::{
            CasVersion, ClientId, GraveGoods, Key, KeyValuePairs, LastWill, LiveOnlyFlag, PStateEvent, Protocol,
            ProtocolMajorVersion, ProtocolVersion, RegularKeySegment, RequestPattern, StateEvent, SubscriptionId,
            TransactionId, UniqueFlag, Value, ValueEntry, error::WorterbuchResult,
        };
        use crate::Config;
        use std::net::SocketAddr;
        include!("/verif/kani/sync/gen/wbfunction.rs");
    }
}
pub mod leader_follower {
    use crate::store::StoreNode;
    use serde::{Deserialize, Serialize};
    use worterbuch_common::{CasVersion, GraveGoods, Key, LastWill, RequestPattern, Value};
    include!("/verif/kani/sync/gen/lf_types.rs");

    pub mod leader {
        use crate::{
            Config, INTERNAL_CLIENT_ID, Worterbuch,
            error::WorterbuchAppResult,
            forward_api_call, forward_to_followers,
            leader_follower::{ClientWriteCommand, LeaderSyncMessage, Mode, StateSync},
            process_api_call,
            server::common::WbFunction,
        };
        use std::ops::ControlFlow;
        use tokio::Now as _;
        use tokio::sync::{mpsc, oneshot};
        use tracing::{Level, debug, error, info, span};
        use worterbuch_common::{KeySegment, PStateEvent, ValueEntry};
        include!("/verif/kani/sync/gen/leader_fns.rs");

        /// crate-visible entry points for the harness module (the sliced functions are private, as in the repo)
        pub(crate) mod x {
            use super::*;
            type Txs = Vec<(usize, mpsc::Sender<ClientWriteCommand>)>;
            pub(crate) fn grave_goods_change(r: Option<PStateEvent>, t: &mut Txs, d: &mut Vec<usize>) -> WorterbuchAppResult<ControlFlow<()>> {
                try_forward_grave_goods_change(r, t, d)
            }
            pub(crate) fn last_will_change(r: Option<PStateEvent>, t: &mut Txs, d: &mut Vec<usize>) -> WorterbuchAppResult<ControlFlow<()>> {
                try_forward_last_will_change(r, t, d)
            }
            pub(crate) fn api_call(r: Option<WbFunction>, w: &mut Worterbuch, t: &mut Txs, d: &mut Vec<usize>) -> WorterbuchAppResult<ControlFlow<()>> {
                try_forward_api_call(r, w, t, d)
            }
            pub(crate) fn follower_connected(
                r: Option<oneshot::Sender<(StateSync, mpsc::Receiver<ClientWriteCommand>)>>,
                w: &mut Worterbuch,
                t: &mut Txs,
                c: &Config,
                id: &mut usize,
            ) -> WorterbuchAppResult<ControlFlow<()>> {
                try_forward_follower_connected(r, w, t, c, id)
            }
        }
    }
    pub mod follower {
        use crate::{
            Config, INTERNAL_CLIENT_ID, Worterbuch,
            error::{WorterbuchAppError, WorterbuchAppResult},
            leader_follower::{ClientWriteCommand, LeaderSyncMessage, Mode, StateSync},
            server::common::WbFunction,
        };
        use serde_json::json;
        use std::ops::ControlFlow;
        use tokio::Now as _;
        use tracing::{debug, error, info, trace};
        use worterbuch_common::{SYSTEM_TOPIC_MODE, SYSTEM_TOPIC_ROOT, error::WorterbuchError};
        include!("/verif/kani/sync/gen/follower_fns.rs");

        pub(crate) mod x {
            use super::*;
            pub(crate) fn sync(st: StateSync, w: &mut Worterbuch) -> WorterbuchAppResult<()> {
                initial_sync(st, w)
            }
            pub(crate) fn leader_message(m: LeaderSyncMessage, w: &mut Worterbuch) -> WorterbuchAppResult<()> {
                process_leader_message(m, w)
            }
            pub(crate) fn api_call(w: &mut Worterbuch, f: WbFunction) {
                process_api_call(w, f)
            }
        }
    }
}
// functions of worterbuch/src/lib.rs
use leader_follower::ClientWriteCommand;
use server::common::WbFunction;
use tokio::Now as _;
use tokio::sync::mpsc;
use tracing::Instrument;
use worterbuch_common::{SYSTEM_TOPIC_ROOT_PREFIX, error::WorterbuchError};
include!("/verif/kani/sync/gen/lib_fns.rs");

#[cfg(kani)]
mod h {
    use super::*;
    include!("/verif/kani/sync/src/h/c11.rs");
}

#[cfg(kani)]
#[kani::proof]
fn zz_nothing() {
    let x: u64 = kani::any();
    assert!(x == x);
}
