//! Harness crate "sync" (C11): the core (store.rs, subscribers.rs, worterbuch.rs, de-sugared) plus the
//! leader / follower synchronisation functions sliced verbatim out of worterbuch/src/lib.rs,
//! leader_follower/{mod,leader,follower}.rs and server/common/mod.rs (gen/slice.py), against the
//! environment models. Transports (TCP sync stream, subsystems) are outside.
#![allow(dead_code, unused_imports, unused_variables, unused_mut, clippy::all)]

macro_rules! src {
    ("store.rs") => { include!("/verif/kani/sync/gen/store.rs"); };
    ("subscribers.rs") => { include!("/verif/kani/sync/gen/subscribers.rs"); };
    ("worterbuch.rs") => { include!("/verif/kani/sync/gen/worterbuch.rs"); };
    ("config.rs") => { include!("/verif/kani/sync/gen/config.rs"); };
    ("persistence.rs") => { include!("/verif/kani/sync/gen/persistence.rs"); };
}
macro_rules! model_prelude {
    () => { use tokio::Now as _; };
}
macro_rules! ssrc {
    ("wbfunction.rs") => { include!("/verif/kani/sync/gen/wbfunction.rs"); };
    ("lf_types.rs") => { include!("/verif/kani/sync/gen/lf_types.rs"); };
    ("leader_fns.rs") => { include!("/verif/kani/sync/gen/leader_fns.rs"); };
    ("follower_fns.rs") => { include!("/verif/kani/sync/gen/follower_fns.rs"); };
    ("lib_fns.rs") => { include!("/verif/kani/sync/gen/lib_fns.rs"); };
}
macro_rules! aw {
    ($e:expr) => { $e };
}
/// `topic!` without core::fmt (see /verif/gen/deasync.py): the pieces are concatenated with '/' exactly as
/// worterbuch_common::topic! does, each piece rendered as its `Display` would render it.
macro_rules! vtopic {
    ($first:expr $(, $rest:expr)*) => {{
        let mut s = String::new();
        $crate::topic_model::TopicPiece::push_to(&$first, &mut s);
        $(
            s.push('/');
            $crate::topic_model::TopicPiece::push_to(&$rest, &mut s);
        )*
        s
    }};
}
pub mod topic_model {
    use worterbuch_common::{ClientId, KeySegment};
    pub trait TopicPiece {
        fn push_to(&self, s: &mut String);
    }
    impl<T: TopicPiece + ?Sized> TopicPiece for &T {
        fn push_to(&self, s: &mut String) {
            (**self).push_to(s)
        }
    }
    impl TopicPiece for str {
        fn push_to(&self, s: &mut String) {
            s.push_str(self)
        }
    }
    impl TopicPiece for String {
        fn push_to(&self, s: &mut String) {
            s.push_str(self)
        }
    }
    impl TopicPiece for KeySegment {
        fn push_to(&self, s: &mut String) {
            s.push_str(self.as_ref())
        }
    }
    /// `Display` of a Uuid: lower-case hex, hyphenated 8-4-4-4-12
    impl TopicPiece for ClientId {
        fn push_to(&self, s: &mut String) {
            const HEX: &[u8; 16] = b"0123456789abcdef";
            let b = self.as_bytes();
            // (unrolled: a 16-iteration loop would need its own unwinding bound in every harness)
            macro_rules! hx {
                ($i:expr) => {
                    s.push(HEX[(b[$i] >> 4) as usize] as char);
                    s.push(HEX[(b[$i] & 0xf) as usize] as char);
                };
            }
            hx!(0); hx!(1); hx!(2); hx!(3);
            s.push('-');
            hx!(4); hx!(5);
            s.push('-');
            hx!(6); hx!(7);
            s.push('-');
            hx!(8); hx!(9);
            s.push('-');
            hx!(10); hx!(11); hx!(12); hx!(13); hx!(14); hx!(15);
        }
    }
}
macro_rules! wb_harnesses {
    () => {
        include!("/verif/kani/sync/src/h/wbside.rs");
    };
}
include!("/verif/kani/sync/src/body.rs");

#[cfg(kani)]
#[kani::proof]
fn zz_nothing() {
    let x: u64 = kani::any();
    assert!(x == x);
}
