include!("/verif/kani/wb/src/body_core.rs");

pub use config::Config;
pub use worterbuch::Worterbuch;

pub mod error {
    include!("/repo/worterbuch/src/error.rs");
}
pub mod server {
    pub mod common {
        use tokio::sync::{mpsc, oneshot};
        use tracing::Span;
        use worterbuch_common::{
            CasVersion, ClientId, GraveGoods, Key, KeyValuePairs, LastWill, LiveOnlyFlag, PStateEvent, Protocol,
            ProtocolMajorVersion, ProtocolVersion, RegularKeySegment, RequestPattern, StateEvent, SubscriptionId,
            TransactionId, UniqueFlag, Value, ValueEntry, error::WorterbuchResult,
        };
        use crate::Config;
        use std::net::SocketAddr;
        ssrc!("wbfunction.rs");
    }
}
pub mod leader_follower {
    use crate::store::StoreNode;
    use serde::{Deserialize, Serialize};
    use worterbuch_common::{CasVersion, GraveGoods, Key, LastWill, RequestPattern, Value};
    ssrc!("lf_types.rs");

    pub mod leader {
        use crate::{
            Config, INTERNAL_CLIENT_ID, Worterbuch,
            error::WorterbuchAppResult,
            forward_api_call, forward_to_followers,
            leader_follower::{ClientWriteCommand, LeaderSyncMessage, Mode, StateSync},
            process_api_call,
            server::common::WbFunction,
        };
        use std::ops::ControlFlow;
        model_prelude!();
        use tokio::sync::{mpsc, oneshot};
        use tracing::{Level, debug, error, info, span};
        use worterbuch_common::{KeySegment, PStateEvent, ValueEntry};
        ssrc!("leader_fns.rs");

        /// crate-visible entry points for the harness module (the sliced functions are private, as in the repo)
        pub(crate) mod x {
            use super::*;
            type Txs = Vec<(usize, mpsc::Sender<ClientWriteCommand>)>;
            pub(crate) fn grave_goods_change(r: Option<PStateEvent>, t: &mut Txs, d: &mut Vec<usize>) -> WorterbuchAppResult<ControlFlow<()>> {
                aw!(try_forward_grave_goods_change(r, t, d))
            }
            pub(crate) fn last_will_change(r: Option<PStateEvent>, t: &mut Txs, d: &mut Vec<usize>) -> WorterbuchAppResult<ControlFlow<()>> {
                aw!(try_forward_last_will_change(r, t, d))
            }
            pub(crate) fn api_call(r: Option<WbFunction>, w: &mut Worterbuch, t: &mut Txs, d: &mut Vec<usize>) -> WorterbuchAppResult<ControlFlow<()>> {
                aw!(try_forward_api_call(r, w, t, d))
            }
            pub(crate) fn follower_connected(
                r: Option<oneshot::Sender<(StateSync, mpsc::Receiver<ClientWriteCommand>)>>,
                w: &mut Worterbuch,
                t: &mut Txs,
                c: &Config,
                id: &mut usize,
            ) -> WorterbuchAppResult<ControlFlow<()>> {
                aw!(try_forward_follower_connected(r, w, t, c, id))
            }
        }
    }
    pub mod follower {
        use crate::{
            Config, INTERNAL_CLIENT_ID, Worterbuch,
            error::{WorterbuchAppError, WorterbuchAppResult},
            leader_follower::{ClientWriteCommand, LeaderSyncMessage, Mode, StateSync},
            server::common::WbFunction,
        };
        use serde_json::json;
        #[allow(unused_imports)]
        use worterbuch_common::topic;
        use std::ops::ControlFlow;
        model_prelude!();
        use tracing::{debug, error, info, trace};
        use worterbuch_common::{SYSTEM_TOPIC_MODE, SYSTEM_TOPIC_ROOT, error::WorterbuchError};
        ssrc!("follower_fns.rs");

        pub(crate) mod x {
            use super::*;
            pub(crate) fn sync(st: StateSync, w: &mut Worterbuch) -> WorterbuchAppResult<()> {
                aw!(initial_sync(st, w))
            }
            pub(crate) fn leader_message(m: LeaderSyncMessage, w: &mut Worterbuch) -> WorterbuchAppResult<()> {
                aw!(process_leader_message(m, w))
            }
            pub(crate) fn api_call(w: &mut Worterbuch, f: WbFunction) {
                aw!(process_api_call(w, f))
            }
        }
    }
}
// functions of worterbuch/src/lib.rs
use leader_follower::ClientWriteCommand;
use server::common::WbFunction;
model_prelude!();
use tokio::sync::mpsc;
use tracing::Instrument;
use worterbuch_common::{SYSTEM_TOPIC_ROOT_PREFIX, error::WorterbuchError};
ssrc!("lib_fns.rs");

/// crate-visible, synchronous entry point to lib.rs's `forward_api_call` for the harness module
pub(crate) fn forward_api_call_now(t: &mut Vec<(usize, mpsc::Sender<ClientWriteCommand>)>, d: &mut Vec<usize>, f: &WbFunction, filter_sys: bool) {
    aw!(forward_api_call(t, d, f, filter_sys))
}
#[cfg(any(kani, feature = "vreplay"))]
mod h {
    use super::*;
    include!("/verif/kani/sync/src/h/c11.rs");
}
