// Shared between the Kani crate (/verif/kani/core) and the native replay crate (/verif/replay/core).

pub mod subscribers {
    model_prelude!();
    src!("subscribers.rs");

    #[cfg(any(kani, feature = "vreplay"))]
    mod h {
        include!("/verif/kani/core/src/h/util_subs.rs");
        include!("/verif/kani/core/src/h/c04_subs_gen.rs");
    }
}

pub mod store {
    model_prelude!();
    src!("store.rs");

    #[cfg(any(kani, feature = "vreplay"))]
    mod h {
        include!("/verif/kani/core/src/h/util.rs");
        include!("/verif/kani/core/src/h/c02.rs");
        include!("/verif/kani/core/src/h/c01.rs");
        include!("/verif/kani/core/src/h/c01_gen.rs");
        include!("/verif/kani/core/src/h/c04_gen.rs");
        include!("/verif/kani/core/src/h/c06.rs");
        include!("/verif/kani/core/src/h/c09.rs");
        include!("/verif/kani/core/src/h/c01_merge.rs");
        include!("/verif/kani/core/src/h/c05.rs");
        include!("/verif/kani/core/src/h/c17.rs");
        #[cfg(kani)]
        include!("/verif/kani/core/src/h/probe.rs");
    }
}

#[cfg(kani)]
#[kani::proof]
fn zz_nothing() {
    let x: u64 = kani::any();
    assert!(x == x);
}
