//! Harness crate "core": the real source text of worterbuch's store / subscribers is
//! pulled in with include! (current working tree of /repo) and compiled against the
//! environment models of /verif/env. Harness modules are siblings *inside* the wrapper
//! modules so that they see private items. Nothing of worterbuch is rewritten.
#![allow(dead_code, unused_imports, unused_variables, unused_mut, clippy::all)]
include!("/verif/kani/core/src/body.rs");
