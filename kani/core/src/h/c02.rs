// @module store::h
// C02  Compare-and-swap never loses an update  (Store::insert decision table, store.rs)
//
// Symbolic: stored value, stored version (all 2^64), incoming value, incoming version (all 2^64).
// Case split (concrete per harness): kind of the stored entry {absent, plain, CAS} x kind of the
// incoming write {plain set, cset}.

fn c02_state(cur_kind: u8) -> (Store, E) {
    let e = E::any(cur_kind == 2);
    let data = if cur_kind == 0 {
        // an unrelated sibling keeps the root's tree allocated
        n1(None, "b", n0(Some(ValueEntry::Plain(Value::Bool(true)))))
    } else if cur_kind == 3 {
        // the key is absent but its node exists: it is an inner node (a/b is stored)
        n1(None, "a", n1(None, "b", n0(Some(ValueEntry::Plain(Value::Bool(true))))))
    } else {
        n1(None, "a", n0(Some(e.entry())))
    };
    (Store { data, len: 1, ..Default::default() }, e)
}

/// One write without `force` on key `a`; reference = the statement of C02.
fn c02_table(cur_kind: u8, inc_cas: bool) {
    let (mut store, e) = c02_state(cur_kind);
    let key = [s("a")];
    let nb: bool = kani::any();
    let nv: u64 = kani::any();
    let cur: u64 = if cur_kind == 2 { e.ver } else { 0 };
    let absent = cur_kind == 0 || cur_kind == 3;
    let r = if inc_cas {
        store.insert_cas(&key, Value::Bool(nb), nv, false)
    } else {
        store.insert_plain(&key, Value::Bool(nb), false)
    };
    let ok = r.is_ok();
    if inc_cas {
        // cset succeeds iff the version it carries equals the current version (0 for absent / plain) ...
        if cur < u64::MAX {
            assert!(ok == (nv == cur), "C02: cset accepted iff its version equals the current version");
        } else {
            // ... a version that cannot be raised by one can not be accepted at all
            assert!(!ok, "C02: cset at version u64::MAX must be rejected, the version can not be raised");
        }
        if ok {
            // ... and raises it by exactly one (as a mathematical integer: no wrap-around)
            let now = store.cget(&key);
            assert!(matches!(now, Some((val, v)) if val.as_bool() == Some(nb) && v > cur && v - cur == 1),
                "C02: accepted cset stores the new value with version + 1");
            assert!(matches!(store.get_node(&key).and_then(|n| n.value()), Some(ValueEntry::Cas(_, _))),
                "C02: accepted cset leaves a CAS entry");
        }
    } else {
        // a plain set never replaces a CAS-protected value
        assert!(ok == (cur_kind != 2), "C02: plain set accepted iff the value is not CAS protected");
        if ok {
            assert!(matches!(store.get_node(&key).and_then(|n| n.value()), Some(ValueEntry::Plain(val)) if val.as_bool() == Some(nb)),
                "C02: accepted set stores the plain value");
        }
    }
    if ok {
        if let Ok((changed, _)) = &r {
            let expect_changed = absent || e.b != nb;
            assert!(*changed == expect_changed, "C02: value_changed flag");
        }
        assert!(store.len() == if absent { 2 } else { 1 }, "C02: entry count after accepted write");
    } else {
        // a rejected write changes nothing that a read of the key can observe
        if absent {
            assert!(store.cget(&key).is_none() && store.get(&key).is_none(), "C02: rejected write on an absent key stores nothing");
        } else {
            assert!(holds(&store, &key, &e), "C02: rejected write leaves entry, kind and version unchanged");
        }
        assert!(store.len() == 1, "C02: entry count after rejected write");
    }
    // witnesses (a cover in a statically dead branch would count as unsatisfied, hence the disjunctions)
    kani::cover!(ok || !(inc_cas || cur_kind != 2), "accepted branch reached (where one exists)");
    kani::cover!(!ok || !(inc_cas || cur_kind == 2), "rejected branch reached (where one exists)");
    core::mem::forget(r);
    core::mem::forget(store);
}

// @h props=C02,C17 tier=quick cap=200 desc="cset on an absent key: all 2^64 versions" bounds="key a, sibling b; value Bool; version u64"
#[kani::proof]
#[kani::unwind(4)]
fn c02_table_absent_cset() { c02_table(0, true) }

// @h props=C02,C17 tier=quick cap=200 desc="cset on an absent key that is an inner node (has sub keys): all 2^64 versions, accepted iff version 0" bounds="key a, sub key a/b; value Bool; version u64"
#[kani::proof]
#[kani::unwind(4)]
fn c02_table_inner_cset() { c02_table(3, true) }

// @h props=C02,C17 tier=quick cap=200 desc="cset on a plain value: all 2^64 versions" bounds="key a; value Bool; version u64"
#[kani::proof]
#[kani::unwind(4)]
fn c02_table_plain_cset() { c02_table(1, true) }

// @h props=C02,C17 tier=quick cap=200 desc="cset on a CAS value: all 2^64 x 2^64 (current, carried) versions, incl. u64::MAX" bounds="key a; value Bool; versions u64"
#[kani::proof]
#[kani::unwind(4)]
fn c02_table_cas_cset() { c02_table(2, true) }

// @h props=C02,C17 tier=quick cap=200 desc="plain set on an absent key" bounds="key a, sibling b; value Bool"
#[kani::proof]
#[kani::unwind(4)]
fn c02_table_absent_set() { c02_table(0, false) }

// @h props=C02,C17 tier=quick cap=200 desc="plain set on a plain value" bounds="key a; value Bool"
#[kani::proof]
#[kani::unwind(4)]
fn c02_table_plain_set() { c02_table(1, false) }

// @h props=C02,C17 tier=quick cap=200 desc="plain set on a CAS value is rejected and changes nothing (any version)" bounds="key a; value Bool; version u64"
#[kani::proof]
#[kani::unwind(4)]
fn c02_table_cas_set() { c02_table(2, false) }

/// Two writers that both read the current version (cget) and then cset with it: exactly one wins,
/// the loser changes nothing, the final value is the winner's; a third attempt by the loser with the
/// version it re-reads succeeds. Requests are processed one at a time by the core (see evidence
/// "outside the claim"), so an interleaving of cget/cset cycles is a sequence of such steps.
fn c02_two_writers(cur_kind: u8) {
    let (mut store, e) = c02_state(cur_kind);
    let key = [s("a")];
    let cur: u64 = if cur_kind == 2 { e.ver } else { 0 };
    kani::assume(cur < u64::MAX - 1);
    // both writers carry the same symbolic version (the interesting case is v == cur, but any v is allowed)
    let v: u64 = kani::any();
    let r1 = store.insert_cas(&key, Value::Bool(true), v, false);
    let ok1 = r1.is_ok();
    core::mem::forget(r1);
    let r2 = store.insert_cas(&key, Value::Bool(false), v, false);
    let ok2 = r2.is_ok();
    core::mem::forget(r2);
    assert!(ok1 == (v == cur), "C02: first writer wins iff it carries the current version");
    assert!(!(ok1 && ok2), "C02: two writers won with the same version");
    if ok1 {
        let now = store.cget(&key);
        assert!(matches!(now, Some((val, nv)) if val.as_bool() == Some(true) && nv == cur + 1), "C02: final value is the winner's, version + 1");
    } else if cur_kind == 0 {
        // v != 0: nobody can win on an absent key
        assert!(!ok2 && store.cget(&key).is_none(), "C02: no winner on absent key with non-zero version");
    } else {
        assert!(!ok2 && holds(&store, &key, &e), "C02: no winner, entry unchanged");
    }
    kani::cover!(ok1, "a winner exists");
    kani::cover!(!ok1, "no winner");
    core::mem::forget(store);
}

// @h props=C02 tier=quick cap=300 desc="two cset with the same symbolic version on an absent key: at most one winner" bounds="2 writers, key a; version u64"
#[kani::proof]
#[kani::unwind(4)]
fn c02_two_writers_absent() { c02_two_writers(0) }

// @h props=C02 tier=quick cap=300 desc="two cset with the same symbolic version on a plain value: at most one winner" bounds="2 writers, key a; version u64"
#[kani::proof]
#[kani::unwind(4)]
fn c02_two_writers_plain() { c02_two_writers(1) }

// @h props=C02 tier=quick cap=300 desc="two cset with the same symbolic version on CAS(any version): exactly one winner iff version matches" bounds="2 writers, key a; versions u64"
#[kani::proof]
#[kani::unwind(4)]
fn c02_two_writers_cas() { c02_two_writers(2) }

/// The loser of a race re-reads (cget) and retries with the version it now sees: it must succeed and
/// the version must end at cur + 2 - no acknowledged update is lost, the version never goes backwards.
// @h props=C02 tier=quick cap=400 desc="cget-then-cset retry cycle: loser re-reads and wins the next round, version ends at cur+2" bounds="3 cset steps, key a, CAS(any version < MAX-1)"
#[kani::proof]
#[kani::unwind(4)]
fn c02_retry_cycle_cas() {
    let (mut store, e) = c02_state(2);
    let key = [s("a")];
    let cur = e.ver;
    kani::assume(cur < u64::MAX - 1);
    let seen1 = store.cget(&key).map(|x| x.1);
    let seen2 = store.cget(&key).map(|x| x.1);
    assert!(seen1 == Some(cur) && seen2 == Some(cur), "C02: cget reports the stored version");
    let r1 = store.insert_cas(&key, Value::Bool(true), cur, false);
    assert!(r1.is_ok(), "C02: first writer wins");
    core::mem::forget(r1);
    let r2 = store.insert_cas(&key, Value::Bool(false), cur, false);
    assert!(r2.is_err(), "C02: second writer with the stale version loses");
    core::mem::forget(r2);
    let seen3 = store.cget(&key).map(|x| x.1);
    assert!(seen3 == Some(cur + 1), "C02: version observed after the first win is cur + 1 (never backwards)");
    let r3 = store.insert_cas(&key, Value::Bool(false), cur + 1, false);
    assert!(r3.is_ok(), "C02: retry with the re-read version wins");
    core::mem::forget(r3);
    assert!(matches!(store.cget(&key), Some((val, nv)) if val.as_bool() == Some(false) && nv == cur + 2), "C02: both acknowledged updates are reflected");
    core::mem::forget(store);
}
