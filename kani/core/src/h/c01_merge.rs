// @module store::h
// C01 (import)  Store::merge - the in-memory half of `import` (the JSON text of the import is decoded by the real
// serde_json, outside). The imported tree is built literally; values / kinds / versions on both sides symbolic.
fn merged_has(ins: &[(String, (ValueEntry, bool))], key: &str, e: &E, changed: bool) -> bool {
    let mut i = 0;
    let mut f = false;
    while i < ins.len() {
        if ins[i].0 == key {
            let ok = match &ins[i].1 .0 {
                ValueEntry::Cas(v, n) => e.cas && v.as_bool() == Some(e.b) && *n == e.ver,
                ValueEntry::Plain(v) => !e.cas && v.as_bool() == Some(e.b),
            };
            if ok && ins[i].1 .1 == changed {
                f = true;
            }
        }
        i += 1;
    }
    f
}

// @h props=C01,C17 tier=quick cap=600 desc="import of a value for key a into a store that holds only a/b (a is an inner node without value): both keys readable, entry count 2" bounds="values Bool; kinds plain/CAS; version u64"
#[kani::proof]
#[kani::unwind(5)]
#[kani::stub(std::mem::MaybeUninit::write, stub_mu_write)]
fn c01_merge_value_onto_inner_node() {
    let e_ab = E::any(false);
    let i_a = E::any(true);
    let mut store = Store { data: n1(None, "a", n1(None, "b", n0(Some(e_ab.entry())))), len: 1, ..Default::default() };
    let other = n1(None, "a", n0(Some(i_a.entry())));
    let ins = store.merge(other);
    assert!(ins.len() == 1 && merged_has(&ins, "a", &i_a, true), "C01: import reports the imported key with its entry, as changed");
    core::mem::forget(ins);
    check_present(&store, &[s("a")], &i_a);
    check_present(&store, &[s("a"), s("b")], &e_ab);
    assert!(store.len() == 2, "C01: the entry count after an import equals the number of stored values");
    check_ls_root(&store, true, false);
    check_ls(&store, "a", true, false, true);
    assert!(store.data.is_clean(), "C17: tree clean after import");
    kani::cover!(true);
    core::mem::forget(store);
}

// @h props=C01,C17 tier=quick cap=600 desc="import overwriting an existing key (any kinds/versions on both sides) and adding a new sibling: imported entries win exactly as given, count right, changed flags right" bounds="values Bool; versions u64"
#[kani::proof]
#[kani::unwind(5)]
#[kani::stub(std::mem::MaybeUninit::write, stub_mu_write)]
fn c01_merge_overwrite_and_add() {
    let e_a = E::any(true);
    let i_a = E::any(false);
    let i_b = E::any(true);
    let mut store = Store { data: n1(None, "a", n0(Some(e_a.entry()))), len: 1, ..Default::default() };
    let other = n2(None, "a", n0(Some(i_a.entry())), "b", n0(Some(i_b.entry())));
    let ins = store.merge(other);
    // (stored CAS entry vs imported plain entry always differ)
    assert!(ins.len() == 2 && merged_has(&ins, "a", &i_a, true) && merged_has(&ins, "b", &i_b, true), "C01: import reports both keys");
    core::mem::forget(ins);
    check_present(&store, &[s("a")], &i_a);
    check_present(&store, &[s("b")], &i_b);
    assert!(store.len() == 2, "C01: the entry count after an import equals the number of stored values");
    check_ls_root(&store, true, true);
    kani::cover!(true);
    core::mem::forget(store);
}

// @h props=C01,C17 tier=quick cap=600 desc="import of {a, a/b} into an empty store, and re-import of the identical plain value (reported as unchanged)" bounds="values Bool"
#[kani::proof]
#[kani::unwind(5)]
#[kani::stub(std::mem::MaybeUninit::write, stub_mu_write)]
fn c01_merge_into_empty_and_reimport() {
    let i_a = E::any(false);
    let i_ab = E::any(true);
    let mut store = Store::default();
    let ins = store.merge(n1(None, "a", n1(Some(i_a.entry()), "b", n0(Some(i_ab.entry())))));
    assert!(ins.len() == 2, "C01: both imported keys are reported");
    core::mem::forget(ins);
    check_present(&store, &[s("a")], &i_a);
    check_present(&store, &[s("a"), s("b")], &i_ab);
    assert!(store.len() == 2, "C01: entry count after import into an empty store");
    let ins2 = store.merge(n1(None, "a", n0(Some(i_a.entry()))));
    assert!(ins2.len() == 1 && merged_has(&ins2, "a", &i_a, false), "C01: re-importing the identical entry is reported as unchanged");
    core::mem::forget(ins2);
    assert!(store.len() == 2, "C01: entry count unchanged by a re-import");
    check_present(&store, &[s("a"), s("b")], &i_ab);
    kani::cover!(true);
    core::mem::forget(store);
}
