// @module store::h
