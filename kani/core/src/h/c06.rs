// @module store::h
// C06  A key lock has one holder, is handed over first-come and dies with its session.
//
// One lock operation from a directly constructed lock state of key `a` (or `a/b`):
//   state (concrete per harness): free | held by c1 with waiting queue [] | [c2] | [c2, c3]
//   caller (symbolic): chosen by the solver among {c1, c2, c3}
// Every waiter has one confirmation channel whose receiver the harness keeps; `locked_keys` is built
// consistent with the lock (representation invariant), and the invariant is asserted again afterwards.

type Rx = oneshot::Receiver<()>;

fn ln0(l: Option<Lock>) -> LockNode {
    Node { value: l, tree: None, _key_type: PhantomData }
}
fn ln1(l: Option<Lock>, k0: &str, c0: LockNode) -> LockNode {
    Node { value: l, tree: Some(Tree::from_slots([Some((s(k0), c0)), None])), _key_type: PhantomData }
}
fn lkey() -> Box<[RegularKeySegment]> {
    let k: Box<[RegularKeySegment]> = Box::new([s("a")]);
    k
}

/// Case split at the top of a harness: the solver chooses the caller, each branch runs the whole
/// scenario (state construction included) with a concrete client id (DESIGN.md 3.3).
fn split_who(n: u8, f: fn(u8)) {
    let w: u8 = kani::any();
    kani::assume(w >= 1 && w <= n);
    if w == 1 {
        f(1)
    } else if w == 2 {
        f(2)
    } else {
        f(3)
    }
}
fn cidw(w: u8) -> ClientId {
    cid(w as u128)
}

/// a held by c1, `q` waiters (c2, c3 in that order), locked_keys consistent for the clients involved.
/// Returns the receivers of the waiters' confirmation channels.
fn lock_state(q: u8) -> (Store, Option<Rx>, Option<Rx>) {
    let mut cands: VecDeque<(ClientId, Vec<oneshot::Sender<()>>)> = VecDeque::new();
    let mut rx2 = None;
    let mut rx3 = None;
    if q >= 1 {
        let (tx, rx) = oneshot::channel::<()>();
        cands.push_back((cid(2), vec![tx]));
        rx2 = Some(rx);
    }
    if q >= 2 {
        let (tx, rx) = oneshot::channel::<()>();
        cands.push_back((cid(3), vec![tx]));
        rx3 = Some(rx);
    }
    let lock = Lock { holder: cid(1), candidates: cands };
    let locks = ln1(None, "a", ln0(Some(lock)));
    // locked_keys: holder and first waiter (model map capacity 2; the third client's entry is not needed by
    // the single-key operations below and is stated as a bound)
    let locked_keys = if q >= 1 {
        HashMap::from_slots([Some((cid(1), vec![lkey()])), Some((cid(2), vec![lkey()]))])
    } else {
        HashMap::from_slots([Some((cid(1), vec![lkey()])), None])
    };
    (Store { locks, locked_keys, ..Default::default() }, rx2, rx3)
}

fn holder_of_a(store: &Store) -> Option<ClientId> {
    store.locks.get_child("a").and_then(|n| n.value()).map(|l| l.holder)
}
fn queue_len_of_a(store: &Store) -> usize {
    store.locks.get_child("a").and_then(|n| n.value()).map(|l| l.candidates.len()).unwrap_or(0)
}
fn queue_at(store: &Store, i: usize) -> Option<ClientId> {
    store.locks.get_child("a").and_then(|n| n.value()).and_then(|l| l.candidates.get(i)).map(|c| c.0)
}
fn lock_tree_clean(store: &Store) -> bool {
    store.locks.is_empty() || store.locks.is_clean()
}
const EMPTY: u8 = 0;
const FIRED: u8 = 1;
const CANCELLED: u8 = 2;
fn rx_state(rx: &mut Option<Rx>) -> u8 {
    match rx {
        Some(rx) => match rx.try_recv() {
            Ok(()) => FIRED,
            Err(oneshot::error::TryRecvError::Empty) => EMPTY,
            Err(oneshot::error::TryRecvError::Closed) => CANCELLED,
        },
        None => EMPTY,
    }
}

// ---------------------------------------------------------------- lock
// @h props=C06,C17 tier=quick cap=300 desc="lock on a free key by any client succeeds and makes it the holder" bounds="key a; clients c1..c3 (symbolic choice)"
#[kani::proof]
#[kani::unwind(5)]
#[kani::stub(std::mem::MaybeUninit::write, stub_mu_write)]
#[kani::stub(std::fmt::format, stub_format)]
fn c06_lock_free() { split_who(3, c06_lock_free_w) }
fn c06_lock_free_w(w: u8) {
    let mut store = Store::default();
    let c = cidw(w);
    let r = store.lock(c, lkey());
    assert!(r.is_ok(), "C06: lock succeeds on a free key");
    assert!(holder_of_a(&store) == Some(c), "C06: the locking client is the holder");
    assert!(queue_len_of_a(&store) == 0, "C06: nobody waits on a fresh lock");
    assert!(lock_tree_clean(&store), "C17: lock tree clean");
    kani::cover!(true);
    core::mem::forget(r);
    core::mem::forget(store);
}

fn c06_lock_held(q: u8, w: u8) {
    let (mut store, mut rx2, mut rx3) = lock_state(q);
    let c = cidw(w);
    let r = store.lock(c, lkey());
    assert!(r.is_ok() == (w == 1), "C06: lock succeeds only for the current holder of a held key");
    assert!(holder_of_a(&store) == Some(cid(1)), "C06: lock by anyone leaves the holder in place");
    assert!(queue_len_of_a(&store) == q as usize, "C06: a refused lock does not touch the queue");
    assert!(rx_state(&mut rx2) == EMPTY && rx_state(&mut rx3) == EMPTY, "C06: nobody is confirmed or cancelled by a lock request");
    assert!(lock_tree_clean(&store), "C17: lock tree clean");
    kani::cover!(r.is_ok());
    kani::cover!(r.is_err());
    core::mem::forget(r);
    core::mem::forget(store);
}
// @h props=C06,C17 tier=quick cap=300 desc="lock on a key held by c1 (nobody waiting): Ok iff caller is c1" bounds="key a; caller in c1..c3"
#[kani::proof]
#[kani::unwind(5)]
#[kani::stub(std::mem::MaybeUninit::write, stub_mu_write)]
#[kani::stub(std::fmt::format, stub_format)]
fn c06_lock_held_q0() { split_who(3, |w| c06_lock_held(0, w)) }
// @h props=C06,C17 tier=quick cap=300 desc="lock on a key held by c1 with c2 waiting: Ok iff caller is c1, queue untouched" bounds="key a; caller in c1..c3"
#[kani::proof]
#[kani::unwind(5)]
#[kani::stub(std::mem::MaybeUninit::write, stub_mu_write)]
#[kani::stub(std::fmt::format, stub_format)]
fn c06_lock_held_q1() { split_who(3, |w| c06_lock_held(1, w)) }

// ---------------------------------------------------------------- acquire
// @h props=C06,C17 tier=quick cap=300 desc="acquire on a free key: caller becomes holder and is confirmed at once, exactly once" bounds="key a; caller in c1..c3"
#[kani::proof]
#[kani::unwind(5)]
#[kani::stub(std::mem::MaybeUninit::write, stub_mu_write)]
fn c06_acquire_free() { split_who(3, c06_acquire_free_w) }
fn c06_acquire_free_w(w: u8) {
    let mut store = Store::default();
    let c = cidw(w);
    let (rx, h) = aw!(store.acquire_lock(c, lkey()));
    let mut rx = Some(rx);
    assert!(h == Some(c) && holder_of_a(&store) == Some(c), "C06: acquire on a free key makes the caller the holder");
    assert!(rx_state(&mut rx) == FIRED, "C06: the new holder is confirmed immediately");
    assert!(rx_state(&mut rx) != FIRED, "C06: confirmed exactly once");
    assert!(lock_tree_clean(&store), "C17: lock tree clean");
    kani::cover!(true);
    core::mem::forget(store);
}

fn c06_acquire_held(q: u8, w: u8) {
    let (mut store, mut rx2, mut rx3) = lock_state(q);
    // caller: c1 (holder), c2 (already waiting if q >= 1), c3 (already waiting if q >= 2)
    let c = cidw(w);
    let (rx, h) = aw!(store.acquire_lock(c, lkey()));
    let mut rx = Some(rx);
    assert!(holder_of_a(&store) == Some(cid(1)) && h == Some(cid(1)), "C06: acquire never takes the lock from its holder");
    if w == 1 {
        assert!(rx_state(&mut rx) == FIRED, "C06: the holder's own acquire is confirmed at once");
        assert!(queue_len_of_a(&store) == q as usize, "C06: queue unchanged by the holder's acquire");
    } else {
        assert!(rx_state(&mut rx) == EMPTY, "C06: a waiter is not confirmed before it becomes the holder");
        let already = (w == 2 && q >= 1) || (w == 3 && q >= 2);
        if already {
            assert!(queue_len_of_a(&store) == q as usize, "C06: a client that already waits gets no second queue entry");
        } else {
            assert!(queue_len_of_a(&store) == q as usize + 1, "C06: a new waiter is appended");
            assert!(queue_at(&store, q as usize) == Some(c), "C06: a new waiter queues behind the earlier ones (first come, first served)");
        }
        if q >= 1 {
            assert!(queue_at(&store, 0) == Some(cid(2)), "C06: the order of earlier waiters is preserved");
        }
    }
    assert!(rx_state(&mut rx2) == EMPTY && rx_state(&mut rx3) == EMPTY, "C06: earlier waiters are neither confirmed nor cancelled");
    assert!(lock_tree_clean(&store), "C17: lock tree clean");
    kani::cover!(w == 1);
    kani::cover!(w == 2);
    core::mem::forget(store);
}
// @h props=C06,C17 tier=quick cap=400 desc="acquire on a key held by c1, nobody waiting: holder confirmed at once, another client is queued unconfirmed" bounds="key a; caller in c1..c2"
#[kani::proof]
#[kani::unwind(5)]
#[kani::stub(std::mem::MaybeUninit::write, stub_mu_write)]
fn c06_acquire_held_q0() { split_who(2, |w| c06_acquire_held(0, w)) }
// @h props=C06,C17 tier=quick cap=400 desc="acquire on a key held by c1 with c2 waiting: new waiter goes behind c2, waiting client gets no duplicate entry" bounds="key a; caller in c1..c3"
#[kani::proof]
#[kani::unwind(5)]
#[kani::stub(std::mem::MaybeUninit::write, stub_mu_write)]
fn c06_acquire_held_q1() { split_who(3, |w| c06_acquire_held(1, w)) }

// ---------------------------------------------------------------- release
fn c06_unlock(q: u8, w: u8) {
    let (mut store, mut rx2, mut rx3) = lock_state(q);
    let c = cidw(w);
    let key = [s("a")];
    let r = aw!(store.unlock(c, &key));
    if w == 1 {
        // only the holder's release frees the lock and passes it on - to the FRONT waiter
        if q == 0 {
            assert!(matches!(r, Ok(None)), "C06: release without waiters frees the key");
            assert!(holder_of_a(&store).is_none(), "C06: key is free after the holder's release");
        } else {
            assert!(matches!(r, Ok(Some(n)) if n == cid(2)), "C06: the lock is handed to the client that asked first");
            assert!(holder_of_a(&store) == Some(cid(2)), "C06: the first waiter is the new holder");
            assert!(rx_state(&mut rx2) == FIRED, "C06: exactly the new holder's request is confirmed");
            assert!(rx_state(&mut rx2) != FIRED, "C06: ... exactly once");
            assert!(rx_state(&mut rx3) == EMPTY, "C06: later waiters keep waiting");
            assert!(queue_len_of_a(&store) == q as usize - 1, "C06: the new holder left the queue");
            if q == 2 {
                assert!(queue_at(&store, 0) == Some(cid(3)), "C06: remaining waiters keep their order");
            }
        }
    } else {
        // a release by anyone else leaves the holder in place ...
        assert!(r.is_err(), "C06: release by a non-holder is refused");
        assert!(holder_of_a(&store) == Some(cid(1)), "C06: release by a non-holder leaves the holder in place");
        // ... and cancels the request of a waiter that gives up
        let waited = (w == 2 && q >= 1) || (w == 3 && q >= 2);
        if waited {
            assert!(queue_len_of_a(&store) == q as usize - 1, "C06: a waiter that gives up leaves the queue");
            if w == 2 {
                assert!(rx_state(&mut rx2) == CANCELLED, "C06: the request of the waiter that gave up is cancelled");
                assert!(rx_state(&mut rx3) == EMPTY, "C06: other waiters are unaffected");
                if q == 2 {
                    assert!(queue_at(&store, 0) == Some(cid(3)), "C06: remaining waiter moved up");
                }
            } else {
                assert!(rx_state(&mut rx3) == CANCELLED, "C06: the request of the waiter that gave up is cancelled");
                assert!(rx_state(&mut rx2) == EMPTY, "C06: other waiters are unaffected");
                assert!(queue_at(&store, 0) == Some(cid(2)), "C06: earlier waiter keeps its place");
            }
        } else {
            assert!(queue_len_of_a(&store) == q as usize, "C06: queue unchanged by a stranger's release");
            assert!(rx_state(&mut rx2) == EMPTY && rx_state(&mut rx3) == EMPTY, "C06: nobody confirmed or cancelled by a stranger's release");
        }
    }
    assert!(lock_tree_clean(&store), "C17: lock tree clean after release");
    kani::cover!(w == 1);
    kani::cover!(w == 2);
    kani::cover!(w == 3);
    core::mem::forget(r);
    core::mem::forget(store);
}
// @h props=C06,C17 tier=quick cap=600 desc="release of a key held by c1, nobody waiting, by any client" bounds="key a; caller in c1..c3"
#[kani::proof]
#[kani::unwind(5)]
#[kani::stub(std::mem::MaybeUninit::write, stub_mu_write)]
#[kani::stub(std::fmt::format, stub_format)]
fn c06_unlock_q0() { split_who(3, |w| c06_unlock(0, w)) }
// @h props=C06,C17 tier=quick cap=600 desc="release of a key held by c1 with c2 waiting, by any client: hand-over to c2 / waiter cancels / stranger refused" bounds="key a; caller in c1..c3"
#[kani::proof]
#[kani::unwind(5)]
#[kani::stub(std::mem::MaybeUninit::write, stub_mu_write)]
#[kani::stub(std::fmt::format, stub_format)]
fn c06_unlock_q1() { split_who(3, |w| c06_unlock(1, w)) }
// @h props=C06,C17 tier=quick cap=900 desc="release of a key held by c1 with c2, c3 waiting, by any client: first-come hand-over, cancellation keeps order" bounds="key a; caller in c1..c3"
#[kani::proof]
#[kani::unwind(5)]
#[kani::stub(std::mem::MaybeUninit::write, stub_mu_write)]
#[kani::stub(std::fmt::format, stub_format)]
fn c06_unlock_q2() { split_who(3, |w| c06_unlock(2, w)) }

// @h props=C06,C17 tier=quick cap=600 desc="release of a key that is not locked is refused and leaves no empty lock nodes behind" bounds="keys a, a/b; caller in c1..c3"
#[kani::proof]
#[kani::unwind(5)]
#[kani::stub(std::mem::MaybeUninit::write, stub_mu_write)]
#[kani::stub(std::fmt::format, stub_format)]
fn c06_unlock_unlocked() {
    let deep: bool = kani::any();
    if deep { split_who(3, |w| c06_unlock_unlocked_w(w, true)) } else { split_who(3, |w| c06_unlock_unlocked_w(w, false)) }
}
fn c06_unlock_unlocked_w(w: u8, deep: bool) {
    let mut store = Store::default();
    let c = cidw(w);
    let r = if deep { aw!(store.unlock(c, &[s("a"), s("b")])) } else { aw!(store.unlock(c, &[s("a")])) };
    assert!(r.is_err(), "C06: release of a key that is not locked is refused");
    assert!(lock_tree_clean(&store), "C17: a refused release leaves no empty lock nodes (debug_assert!(is_clean) of the next release)");
    kani::cover!(deep);
    kani::cover!(!deep);
    core::mem::forget(r);
    core::mem::forget(store);
}

// ---------------------------------------------------------------- session end
fn c06_unlock_all(q: u8, w: u8) {
    let (mut store, mut rx2, mut rx3) = lock_state(q);
    // the client whose session ends: c1 (holder) or c2 (waiting, if q >= 1)
    let c = cidw(w);
    let r = aw!(store.unlock_all(c));
    assert!(r.is_some(), "C06: a client with lock registrations has them processed at session end");
    if w == 1 {
        if q == 0 {
            assert!(holder_of_a(&store).is_none(), "C06: the lock dies with its holder's session");
        } else {
            assert!(holder_of_a(&store) == Some(cid(2)), "C06: session end of the holder hands the lock to the first waiter");
            assert!(rx_state(&mut rx2) == FIRED, "C06: the new holder is confirmed");
            assert!(rx_state(&mut rx3) == EMPTY, "C06: later waiters keep waiting");
        }
    } else {
        assert!(holder_of_a(&store) == Some(cid(1)), "C06: a waiter's session end leaves the holder in place");
        assert!(rx_state(&mut rx2) == CANCELLED, "C06: a session that ends while waiting has its request cancelled");
        assert!(queue_len_of_a(&store) == q as usize - 1, "C06: ... and is removed from the queue");
        assert!(rx_state(&mut rx3) == EMPTY, "C06: other waiters unaffected");
    }
    assert!(!store.locked_keys.contains_key(&c), "C06: the ended session has no lock registrations left");
    assert!(lock_tree_clean(&store), "C17: lock tree clean after session end");
    kani::cover!(w == 1);
    core::mem::forget(r);
    core::mem::forget(store);
}
// @h props=C06,C07,C17 tier=quick cap=600 desc="session end of the holder, nobody waiting: key becomes free" bounds="key a"
#[kani::proof]
#[kani::unwind(5)]
#[kani::stub(std::mem::MaybeUninit::write, stub_mu_write)]
#[kani::stub(std::fmt::format, stub_format)]
#[kani::stub(std::result::Result::ok, stub_result_ok)]
fn c06_unlock_all_q0() { split_who(1, |w| c06_unlock_all(0, w)) }
// @h props=C06,C07,C17 tier=quick cap=900 desc="session end of holder c1 or waiter c2 (symbolic): hand-over to c2 resp. cancellation of c2" bounds="key a; c2 waiting"
#[kani::proof]
#[kani::unwind(5)]
#[kani::stub(std::mem::MaybeUninit::write, stub_mu_write)]
#[kani::stub(std::fmt::format, stub_format)]
#[kani::stub(std::result::Result::ok, stub_result_ok)]
fn c06_unlock_all_q1() { split_who(2, |w| c06_unlock_all(1, w)) }
// @h props=C06,C07,C17 tier=quick cap=900 desc="session end of holder c1 or waiter c2 with c3 waiting behind: c3 keeps waiting, order preserved" bounds="key a; c2, c3 waiting"
#[kani::proof]
#[kani::unwind(5)]
#[kani::stub(std::mem::MaybeUninit::write, stub_mu_write)]
#[kani::stub(std::fmt::format, stub_format)]
#[kani::stub(std::result::Result::ok, stub_result_ok)]
fn c06_unlock_all_q2() { split_who(2, |w| c06_unlock_all(2, w)) }

// @h props=C06,C17 tier=quick cap=900 desc="a client that acquired the same free key twice and then ends its session: key free, lock tree clean" bounds="key a; 2 acquire + session end"
#[kani::proof]
#[kani::unwind(5)]
#[kani::stub(std::mem::MaybeUninit::write, stub_mu_write)]
#[kani::stub(std::fmt::format, stub_format)]
#[kani::stub(std::result::Result::ok, stub_result_ok)]
fn c06_double_acquire_then_session_end() {
    let mut store = Store::default();
    let (rxa, _) = aw!(store.acquire_lock(cid(1), lkey()));
    let (rxb, _) = aw!(store.acquire_lock(cid(1), lkey()));
    let (mut rxa, mut rxb) = (Some(rxa), Some(rxb));
    assert!(rx_state(&mut rxa) == FIRED && rx_state(&mut rxb) == FIRED, "C06: both requests of the holder are confirmed");
    let r = aw!(store.unlock_all(cid(1)));
    assert!(holder_of_a(&store).is_none(), "C06: the lock dies with its holder's session");
    assert!(lock_tree_clean(&store), "C17: session end after a repeated acquire leaves no empty lock nodes");
    kani::cover!(true);
    core::mem::forget(r);
    core::mem::forget(store);
}

// ---------------------------------------------------------------- whole histories through the API
// (the one-step harnesses above start from a CONSTRUCTED state that satisfies the representation invariant
// "locked_keys lists every key a client holds or waits for"; a change that stops MAINTAINING that invariant is
// only visible when the state is produced by the operations themselves)
// @h props=C06,C07,C17 tier=quick cap=900 desc="history lock(c1), acquire(c2) [waits], session end of c2, release by c1: c2 leaves the queue cancelled, the key ends up free" bounds="key a; 4 operations"
#[kani::proof]
#[kani::unwind(5)]
#[kani::stub(std::mem::MaybeUninit::write, stub_mu_write)]
#[kani::stub(std::fmt::format, stub_format)]
#[kani::stub(std::result::Result::ok, stub_result_ok)]
fn c06_seq_waiter_session_end() {
    let mut store = Store::default();
    let r0 = store.lock(cid(1), lkey());
    assert!(r0.is_ok(), "C06: lock on a free key");
    let (rx2, _) = aw!(store.acquire_lock(cid(2), lkey()));
    let mut rx2 = Some(rx2);
    assert!(rx_state(&mut rx2) == EMPTY, "C06: a waiter is not confirmed while the key is held");
    assert!(queue_len_of_a(&store) == 1 && queue_at(&store, 0) == Some(cid(2)), "C06: the waiter is queued");
    let r = aw!(store.unlock_all(cid(2)));
    assert!(holder_of_a(&store) == Some(cid(1)), "C06: a waiter's session end leaves the holder in place");
    assert!(queue_len_of_a(&store) == 0, "C06: a session that ends while waiting is removed from the queue");
    assert!(rx_state(&mut rx2) == CANCELLED, "C06: ... with its request cancelled");
    let r2 = aw!(store.unlock(cid(1), &lkey()));
    assert!(matches!(&r2, Ok(None)), "C06: release with an empty queue frees the key (it is not handed to the session that ended)");
    assert!(holder_of_a(&store).is_none(), "C06: key free");
    assert!(lock_tree_clean(&store), "C17: lock tree clean");
    kani::cover!(true);
    core::mem::forget((r0, r, r2));
    core::mem::forget(store);
}
// @h props=C06,C07,C17 tier=quick cap=900 desc="history acquire(c1), acquire(c2) [waits], session end of c1: c2 becomes holder and is confirmed; session end of c2: key free" bounds="key a; 4 operations"
#[kani::proof]
#[kani::unwind(5)]
#[kani::stub(std::mem::MaybeUninit::write, stub_mu_write)]
#[kani::stub(std::fmt::format, stub_format)]
#[kani::stub(std::result::Result::ok, stub_result_ok)]
fn c06_seq_handover_then_session_end() {
    let mut store = Store::default();
    let (rx1, _) = aw!(store.acquire_lock(cid(1), lkey()));
    let (rx2, _) = aw!(store.acquire_lock(cid(2), lkey()));
    let (mut rx1, mut rx2) = (Some(rx1), Some(rx2));
    assert!(rx_state(&mut rx1) == FIRED && rx_state(&mut rx2) == EMPTY, "C06: first asker holds, second waits");
    let r = aw!(store.unlock_all(cid(1)));
    assert!(holder_of_a(&store) == Some(cid(2)), "C06: session end of the holder hands the lock to the waiter");
    assert!(rx_state(&mut rx2) == FIRED, "C06: the new holder is confirmed exactly on hand-over");
    let r2 = aw!(store.unlock_all(cid(2)));
    assert!(holder_of_a(&store).is_none(), "C06: a lock obtained by hand-over dies with its session as well");
    assert!(lock_tree_clean(&store), "C17: lock tree clean");
    kani::cover!(true);
    core::mem::forget((r, r2));
    core::mem::forget(store);
}
// @h props=C06,C17 tier=quick cap=900 desc="key held by c1 with c2, c3, c4 waiting; the FIRST waiter gives up, then c1 releases: c3 (not c4) becomes holder, c4 keeps waiting" bounds="key a; 3 waiters"
#[kani::proof]
#[kani::unwind(6)]
#[kani::stub(std::mem::MaybeUninit::write, stub_mu_write)]
#[kani::stub(std::fmt::format, stub_format)]
#[kani::stub(std::result::Result::ok, stub_result_ok)]
fn c06_three_waiters_first_leaves() {
    let mut cands: VecDeque<(ClientId, Vec<oneshot::Sender<()>>)> = VecDeque::new();
    let (tx2, rx2) = oneshot::channel::<()>();
    let (tx3, rx3) = oneshot::channel::<()>();
    let (tx4, rx4) = oneshot::channel::<()>();
    cands.push_back((cid(2), vec![tx2]));
    cands.push_back((cid(3), vec![tx3]));
    cands.push_back((cid(4), vec![tx4]));
    let (mut rx2, mut rx3, mut rx4) = (Some(rx2), Some(rx3), Some(rx4));
    let lock = Lock { holder: cid(1), candidates: cands };
    let locks = ln1(None, "a", ln0(Some(lock)));
    let locked_keys = HashMap::from_slots([Some((cid(1), vec![lkey()])), Some((cid(2), vec![lkey()]))]);
    let mut store = Store { locks, locked_keys, ..Default::default() };
    let r = aw!(store.unlock(cid(2), &lkey()));
    assert!(r.is_err(), "C06: a waiter that gives up does not release the lock");
    assert!(holder_of_a(&store) == Some(cid(1)), "C06: holder unchanged");
    assert!(rx_state(&mut rx2) == CANCELLED, "C06: the leaving waiter's request is cancelled");
    assert!(queue_len_of_a(&store) == 2 && queue_at(&store, 0) == Some(cid(3)) && queue_at(&store, 1) == Some(cid(4)), "C06: the remaining waiters keep the order in which they first asked");
    let r2 = aw!(store.unlock(cid(1), &lkey()));
    assert!(matches!(&r2, Ok(Some(c)) if *c == cid(3)), "C06: first-come hand-over");
    assert!(holder_of_a(&store) == Some(cid(3)), "C06: c3 asked before c4");
    assert!(rx_state(&mut rx3) == FIRED && rx_state(&mut rx4) == EMPTY, "C06: exactly the new holder is confirmed");
    assert!(lock_tree_clean(&store), "C17: lock tree clean");
    kani::cover!(true);
    core::mem::forget((r, r2));
    core::mem::forget(store);
}
