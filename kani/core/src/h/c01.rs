// @module store::h
// C01 / C05 / C17 helpers for the generated one-step harnesses (c01_gen.rs): reads of the real
// store compared with reference scalars.

fn has(l: &[String], x: &str) -> bool {
    let mut i = 0;
    let mut f = false;
    while i < l.len() {
        if l[i] == x {
            f = true;
        }
        i += 1;
    }
    f
}

pub(crate) fn check_present(store: &Store, k: &[String], e: &E) {
    assert!(holds(store, k, e), "C01: key reads back with the value, kind and version of the reference");
    assert!(e.is(store.get(k)), "C01: get returns the reference value");
    assert!(matches!(store.cget(k), Some((_, v)) if v == e.cur()), "C01: cget returns the reference version");
}

pub(crate) fn check_absent(store: &Store, k: &[String]) {
    assert!(store.get(k).is_none() && store.cget(k).is_none(), "C01: a key that the accepted requests do not imply reads as absent");
}

pub(crate) fn check_ls_root(store: &Store, has_a: bool, has_b: bool) {
    let root = store.ls_root();
    assert!(root.len() == (has_a as usize) + (has_b as usize), "C05: root listing has exactly the first segments of the stored keys (count)");
    assert!(has(&root, "a") == has_a && has(&root, "b") == has_b, "C05: root listing has exactly the first segments of the stored keys");
    core::mem::forget(root);
}

/// `exists`: something is stored at or below `parent`.
pub(crate) fn check_ls(store: &Store, parent: &str, exists: bool, has_a: bool, has_b: bool) {
    let l = store.ls(&[parent]);
    match &l {
        Some(l) => {
            assert!(exists, "C05: ls reports 'no such value' when nothing is stored at or below the parent");
            assert!(l.len() == (has_a as usize) + (has_b as usize), "C05: ls lists exactly the distinct next segments (count)");
            assert!(has(l, "a") == has_a && has(l, "b") == has_b, "C05: ls lists exactly the distinct next segments");
        }
        None => assert!(!exists, "C05: ls must list a parent that has something at or below it"),
    }
    core::mem::forget(l);
}

/// Does the result list contain `key` with the value of reference entry `e`?
pub(crate) fn kv_has(g: &[KeyValuePair], key: &str, e: &E) -> bool {
    let mut i = 0;
    let mut f = false;
    while i < g.len() {
        if g[i].key == key && g[i].value.as_bool() == Some(e.b) {
            f = true;
        }
        i += 1;
    }
    f
}
pub(crate) fn kv_has_key(g: &[KeyValuePair], key: &str) -> bool {
    let mut i = 0;
    let mut f = false;
    while i < g.len() {
        if g[i].key == key {
            f = true;
        }
        i += 1;
    }
    f
}
