// @module subscribers::h
use super::*;
