// @module subscribers::h
use super::*;
use worterbuch_common::ClientId;

pub(crate) fn s(x: &str) -> String {
    x.to_owned()
}
pub(crate) fn cid(n: u128) -> ClientId {
    ClientId::from_u128(n)
}
