// @module store::h
// C17  The developers' internal assertions hold after requests that were REJECTED: a rejected versioned cset on a
// key whose path does not exist yet must leave nothing behind that makes `debug_assert!(is_clean)` of a later
// delete / pdelete fail (core task down in debug builds) or that ls reports (release builds).
// Real code: Store::{insert_cas, insert, delete, delete_matches, ls_root}, Node::{trim, is_clean}.

fn c17_rejected_then_delete(key: &[String]) {
    let e1 = E::any(false);
    let nb: bool = kani::any();
    let ver: u64 = kani::any();
    kani::assume(ver != 0);
    let data = n1(None, "b", n0(Some(e1.entry())));
    let mut store = Store { data, len: 1, ..Default::default() };
    let r = store.insert_cas(key, Value::Bool(nb), ver, false);
    assert!(r.is_err(), "C02: cset with a version other than 0 on an absent key is rejected");
    core::mem::forget(r);
    let root = store.ls_root();
    assert!(root.len() == 1 && has(&root, "b"), "C05: a rejected request leaves no child behind that ls reports");
    core::mem::forget(root);
    let l = store.ls(&["b"]);
    assert!(matches!(&l, Some(l) if l.is_empty()), "C05: a rejected request leaves no child behind that ls reports (below an existing parent)");
    core::mem::forget(l);
    // a later delete of something else runs the developers' debug assertion over the whole tree
    let d = store.delete(&[s("x")]);
    assert!(matches!(&d, Ok(None)), "C01: delete of an absent key returns nothing");
    core::mem::forget(d);
    assert!(store.data.is_clean(), "C17: the tree is clean after a rejected request and a later delete");
    assert!(store.len() == 1, "C01: entry count unchanged by rejected / no-op requests");
    kani::cover!(true);
    core::mem::forget(store);
}

// @h props=C17,C01,C05 tier=quick cap=600 mem=12 desc="rejected cset (any version != 0) on a/b - two path levels missing below the root - then a delete elsewhere: no debug assertion fires, ls shows no ghost" bounds="store {b}; versions u64"
#[kani::proof]
#[kani::unwind(5)]
#[kani::stub(std::fmt::format, stub_format)]
fn c17_rejected_deep_cset_then_delete_ab() {
    c17_rejected_then_delete(&[s("a"), s("b")]);
}
// @h props=C17,C01,C05 tier=quick cap=600 mem=12 desc="rejected cset (any version != 0) on a/a/b - three path levels missing - then a delete elsewhere: no debug assertion fires, ls shows no ghost" bounds="store {b}; versions u64"
#[kani::proof]
#[kani::unwind(6)]
#[kani::stub(std::fmt::format, stub_format)]
fn c17_rejected_deep_cset_then_delete_aab() {
    c17_rejected_then_delete(&[s("a"), s("a"), s("b")]);
}
// @h props=C17,C01,C05 tier=quick cap=600 mem=12 desc="rejected cset (any version != 0) on b/a/b - two path levels missing below an existing parent - then a delete elsewhere: no debug assertion fires, ls shows no ghost" bounds="store {b}; versions u64"
#[kani::proof]
#[kani::unwind(6)]
#[kani::stub(std::fmt::format, stub_format)]
fn c17_rejected_deep_cset_then_delete_bab() {
    c17_rejected_then_delete(&[s("b"), s("a"), s("b")]);
}
