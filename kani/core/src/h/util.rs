// @module store::h
// Shared helpers of the store harnesses (included into `store::h`).
use super::*;

#[cfg(not(kani))]
use crate::vreplay_support::FromSlots;

pub(crate) fn s(x: &str) -> String {
    x.to_owned()
}

/// State builders. NOTE: no `Vec` here - `Vec::pop`/`vec![]` on the way into the tree defeats CBMC's
/// constant folding of every later key comparison (measured: memcmp unrolled 17x per lookup).
pub(crate) fn n0(v: Option<ValueEntry>) -> StoreNode {
    Node { value: v, tree: None, _key_type: PhantomData }
}
pub(crate) fn n1(v: Option<ValueEntry>, k0: &str, c0: StoreNode) -> StoreNode {
    Node { value: v, tree: Some(Tree::from_slots([Some((s(k0), c0)), None])), _key_type: PhantomData }
}
pub(crate) fn n2(v: Option<ValueEntry>, k0: &str, c0: StoreNode, k1: &str, c1: StoreNode) -> StoreNode {
    Node { value: v, tree: Some(Tree::from_slots([Some((s(k0), c0)), Some((s(k1), c1))])), _key_type: PhantomData }
}

/// Scalars describing a stored entry; the entry itself is never cloned in a harness.
/// `cas` MUST be concrete at the call site (enum variants are case-split at the top of
/// a harness, DESIGN.md 2); `b` and `ver` are symbolic.
#[derive(Clone, Copy)]
pub(crate) struct E {
    pub cas: bool,
    pub b: bool,
    pub ver: u64,
}
impl E {
    pub fn any(cas: bool) -> E {
        E { cas, b: kani::any(), ver: kani::any() }
    }
    pub fn entry(&self) -> ValueEntry {
        if self.cas { ValueEntry::Cas(Value::Bool(self.b), self.ver) } else { ValueEntry::Plain(Value::Bool(self.b)) }
    }
    pub fn is(&self, v: Option<&Value>) -> bool {
        // (accessor API common to the model and the real serde_json::Value)
        match v {
            Some(v) => v.as_bool() == Some(self.b),
            None => false,
        }
    }
    /// the version a `cget` must report for this entry
    pub fn cur(&self) -> u64 {
        if self.cas { self.ver } else { 0 }
    }
}

/// Does `store` hold exactly entry `e` (kind, value, version) at `key`?
pub(crate) fn holds(store: &Store, key: &[String], e: &E) -> bool {
    match store.get_node(key).and_then(|n| n.value()) {
        Some(ValueEntry::Cas(val, v)) => e.cas && val.as_bool() == Some(e.b) && *v == e.ver,
        Some(ValueEntry::Plain(val)) => !e.cas && val.as_bool() == Some(e.b),
        _ => false,
    }
}

pub(crate) fn cid(n: u128) -> ClientId {
    ClientId::from_u128(n)
}

/// Stub for `std::fmt::format` (error texts are not the subject of any property; formatting machinery
/// is the single most expensive thing for the engine). Listed in the evidence as a stub.
pub(crate) fn stub_format(_args: core::fmt::Arguments<'_>) -> String {
    String::new()
}

/// Stub for `MaybeUninit::<T>::write`: the same effect through a typed raw-pointer write. std writes a
/// *union* value (`MaybeUninit::new(val)`), after which CBMC no longer constant-folds reads of the stored
/// value (measured on `<[String]>::to_vec`, used by `Box<[String]>::clone` in the lock paths).
pub(crate) fn stub_mu_write<T>(this: &mut core::mem::MaybeUninit<T>, val: T) -> &mut T {
    let p = this.as_mut_ptr();
    unsafe {
        p.write(val);
        &mut *p
    }
}

/// Stub for `Result::<T, E>::ok`: identical, except that the discarded error is leaked instead of dropped.
/// The drop glue of `WorterbuchError` (io::Error, Box<dyn Error>, ...) on a path that is infeasible but not
/// folded away is the single most expensive thing in `Store::unlock_all` (900 s -> 20 s); dropping an
/// error value has no effect that any property observes.
pub(crate) fn stub_result_ok<T, E>(r: Result<T, E>) -> Option<T> {
    match r {
        Ok(v) => Some(v),
        Err(e) => {
            core::mem::forget(e);
            None
        }
    }
}
