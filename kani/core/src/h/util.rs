// @module store::h
// Shared helpers of the store harnesses (included into `store::h`).
use super::*;
use core::future::Future;
use core::task::{Context, Poll, Waker};

#[cfg(not(kani))]
use crate::vreplay_support::FromSlots;

pub(crate) fn block_on<F: Future>(f: F) -> F::Output {
    let mut f = core::pin::pin!(f);
    let waker = Waker::noop();
    let mut cx = Context::from_waker(&waker);
    match f.as_mut().poll(&mut cx) {
        Poll::Ready(v) => v,
        Poll::Pending => {
            kani::assume(false);
            unreachable!()
        }
    }
}

pub(crate) fn s(x: &str) -> String {
    x.to_owned()
}

/// State builders. NOTE: no `Vec` here - `Vec::pop`/`vec![]` on the way into the tree defeats CBMC's
/// constant folding of every later key comparison (measured: memcmp unrolled 17x per lookup).
pub(crate) fn n0(v: Option<ValueEntry>) -> StoreNode {
    Node { value: v, tree: None, _key_type: PhantomData }
}
pub(crate) fn n1(v: Option<ValueEntry>, k0: &str, c0: StoreNode) -> StoreNode {
    Node { value: v, tree: Some(Tree::from_slots([Some((s(k0), c0)), None])), _key_type: PhantomData }
}
pub(crate) fn n2(v: Option<ValueEntry>, k0: &str, c0: StoreNode, k1: &str, c1: StoreNode) -> StoreNode {
    Node { value: v, tree: Some(Tree::from_slots([Some((s(k0), c0)), Some((s(k1), c1))])), _key_type: PhantomData }
}

/// Scalars describing a stored entry; the entry itself is never cloned in a harness.
/// `cas` MUST be concrete at the call site (enum variants are case-split at the top of
/// a harness, DESIGN.md 2); `b` and `ver` are symbolic.
#[derive(Clone, Copy)]
pub(crate) struct E {
    pub cas: bool,
    pub b: bool,
    pub ver: u64,
}
impl E {
    pub fn any(cas: bool) -> E {
        E { cas, b: kani::any(), ver: kani::any() }
    }
    pub fn entry(&self) -> ValueEntry {
        if self.cas { ValueEntry::Cas(Value::Bool(self.b), self.ver) } else { ValueEntry::Plain(Value::Bool(self.b)) }
    }
    pub fn is(&self, v: Option<&Value>) -> bool {
        // (accessor API common to the model and the real serde_json::Value)
        match v {
            Some(v) => v.as_bool() == Some(self.b),
            None => false,
        }
    }
    /// the version a `cget` must report for this entry
    pub fn cur(&self) -> u64 {
        if self.cas { self.ver } else { 0 }
    }
}

/// Does `store` hold exactly entry `e` (kind, value, version) at `key`?
pub(crate) fn holds(store: &Store, key: &[String], e: &E) -> bool {
    match store.get_node(key).and_then(|n| n.value()) {
        Some(ValueEntry::Cas(val, v)) => e.cas && val.as_bool() == Some(e.b) && *v == e.ver,
        Some(ValueEntry::Plain(val)) => !e.cas && val.as_bool() == Some(e.b),
        _ => false,
    }
}

pub(crate) fn cid(n: u128) -> ClientId {
    ClientId::from_u128(n)
}

/// Stub for `std::fmt::format` (error texts are not the subject of any property; formatting machinery
/// is the single most expensive thing for the engine). Listed in the evidence as a stub.
pub(crate) fn stub_format(_args: core::fmt::Arguments<'_>) -> String {
    String::new()
}
