// @module store::h
// Shared helpers of the store harnesses (included into `store::h`).
use super::*;
use core::future::Future;
use core::task::{Context, Poll, Waker};

#[cfg(not(kani))]
use crate::vreplay_support::FromSlots;

pub(crate) fn block_on<F: Future>(f: F) -> F::Output {
    let mut f = core::pin::pin!(f);
    let waker = Waker::noop();
    let mut cx = Context::from_waker(&waker);
    match f.as_mut().poll(&mut cx) {
        Poll::Ready(v) => v,
        Poll::Pending => {
            kani::assume(false);
            unreachable!()
        }
    }
}

pub(crate) fn s(x: &str) -> String {
    x.to_owned()
}

/// Build a node with up to two children (slot order = argument order).
pub(crate) fn node(v: Option<ValueEntry>, mut children: Vec<(&str, StoreNode)>) -> StoreNode {
    let tree = if children.is_empty() {
        None
    } else {
        let c1 = children.pop().map(|(k, n)| (s(k), n));
        let c0 = children.pop().map(|(k, n)| (s(k), n));
        Some(Tree::from_slots(if c0.is_some() { [c0, c1] } else { [c1, None] }))
    };
    Node { value: v, tree, _key_type: PhantomData }
}

/// Scalars describing a stored entry; the entry itself is never cloned in a harness.
/// `cas` MUST be concrete at the call site (enum variants are case-split at the top of
/// a harness, DESIGN.md 2); `b` and `ver` are symbolic.
#[derive(Clone, Copy)]
pub(crate) struct E {
    pub cas: bool,
    pub b: bool,
    pub ver: u64,
}
impl E {
    pub fn any(cas: bool) -> E {
        E { cas, b: kani::any(), ver: kani::any() }
    }
    pub fn entry(&self) -> ValueEntry {
        if self.cas { ValueEntry::Cas(Value::Bool(self.b), self.ver) } else { ValueEntry::Plain(Value::Bool(self.b)) }
    }
    pub fn is(&self, v: Option<&Value>) -> bool {
        matches!(v, Some(Value::Bool(x)) if *x == self.b)
    }
    /// the version a `cget` must report for this entry
    pub fn cur(&self) -> u64 {
        if self.cas { self.ver } else { 0 }
    }
}

/// Does `store` hold exactly entry `e` (kind, value, version) at `key`?
pub(crate) fn holds(store: &Store, key: &[String], e: &E) -> bool {
    match store.get_node(key).and_then(|n| n.value()) {
        Some(ValueEntry::Cas(Value::Bool(b), v)) => e.cas && *b == e.b && *v == e.ver,
        Some(ValueEntry::Plain(Value::Bool(b))) => !e.cas && *b == e.b,
        _ => false,
    }
}

pub(crate) fn cid(n: u128) -> ClientId {
    ClientId::from_u128(n)
}
