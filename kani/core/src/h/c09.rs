// @module store::h
// C09 (in-memory part)  What was flushed is what is loaded: Store::export / export_for_persistence / Node::strip
// and `From<PersistedStore> for Store` (store.rs). The JSON text codec between the two is NOT modelled (see
// MANIFEST level_note): what is decided here is that the tree handed to the serializer holds every user key with
// identical value, plain/CAS kind and CAS version, nothing under $SYS, that the live store is unchanged by the
// export, and that a store rebuilt from that tree serves the same reads with the right entry count.

fn c09_export(a_cas: bool, ab_cas: bool) {
    let e_a = E::any(a_cas);
    let e_ab = E::any(ab_cas);
    let e_s = E::any(false);
    // {$SYS/s, a, a/b}
    let data = n2(None, "$SYS", n1(None, "s", n0(Some(e_s.entry()))), "a", n1(Some(e_a.entry()), "b", n0(Some(e_ab.entry()))));
    let mut store = Store { data, len: 3, ..Default::default() };
    let persisted = store.export_for_persistence();
    // the live store is unchanged (the clone / mem::replace dance)
    check_present(&store, &[s("$SYS"), s("s")], &e_s);
    check_present(&store, &[s("a")], &e_a);
    check_present(&store, &[s("a"), s("b")], &e_ab);
    assert!(store.len() == 3, "C09: export leaves the live store unchanged");
    // "loading": a store rebuilt from the exported tree
    let loaded: Store = persisted.into();
    check_present(&loaded, &[s("a")], &e_a);
    check_present(&loaded, &[s("a"), s("b")], &e_ab);
    check_absent(&loaded, &[s("$SYS"), s("s")]);
    let root = loaded.ls_root();
    assert!(root.len() == 1 && root[0] == "a", "C09: nothing under $SYS is exported");
    core::mem::forget(root);
    assert!(loaded.len() == 2, "C09: the entry count of a loaded store is the number of exported values");
    kani::cover!(true);
    core::mem::forget(loaded);
    core::mem::forget(store);
}
// @h props=C09,C17 tier=quick cap=600 desc="export of {$SYS/s, a(plain), a/b(CAS any version)} and rebuild: same values, kinds, versions; no $SYS; live store unchanged; len recounted" bounds="3 keys; values Bool; version u64"
#[kani::proof]
#[kani::unwind(5)]
#[kani::stub(std::mem::MaybeUninit::write, stub_mu_write)]
fn c09_export_plain_cas() { c09_export(false, true) }
// @h props=C09,C17 tier=quick cap=600 desc="export of {$SYS/s, a(CAS), a/b(plain)} and rebuild" bounds="3 keys; values Bool; version u64"
#[kani::proof]
#[kani::unwind(5)]
#[kani::stub(std::mem::MaybeUninit::write, stub_mu_write)]
fn c09_export_cas_plain() { c09_export(true, false) }

// @h props=C09,C17 tier=quick cap=600 desc="export of a store without user keys (only $SYS) and of an empty store: empty tree, rebuilt store is empty" bounds="0 user keys"
#[kani::proof]
#[kani::unwind(5)]
#[kani::stub(std::mem::MaybeUninit::write, stub_mu_write)]
fn c09_export_only_sys() {
    let e_s = E::any(false);
    let with_sys: bool = kani::any();
    let mut store = if with_sys {
        Store { data: n1(None, "$SYS", n1(None, "s", n0(Some(e_s.entry())))), len: 1, ..Default::default() }
    } else {
        Store::default()
    };
    let persisted = store.export_for_persistence();
    let loaded: Store = persisted.into();
    assert!(loaded.len() == 0, "C09: nothing but user keys is exported");
    let root = loaded.ls_root();
    assert!(root.is_empty(), "C09: nothing under $SYS is exported");
    core::mem::forget(root);
    if with_sys {
        check_present(&store, &[s("$SYS"), s("s")], &e_s);
    }
    kani::cover!(with_sys);
    kani::cover!(!with_sys);
    core::mem::forget(loaded);
    core::mem::forget(store);
}

// @h props=C09,C17 tier=quick cap=600 desc="only the ROOT segment $SYS is system data: user keys a/$SYS (value) and a/$SYS/b below a user key survive export and rebuild with values, kinds and versions" bounds="keys a/$SYS, a/$SYS/b; values Bool; version u64"
#[kani::proof]
#[kani::unwind(5)]
#[kani::stub(std::mem::MaybeUninit::write, stub_mu_write)]
fn c09_export_nested_sys_segment() {
    let e_1 = E::any(true);
    let e_2 = E::any(false);
    // {a/$SYS (CAS), a/$SYS/b (plain)}
    let data = n1(None, "a", n1(None, "$SYS", n1(Some(e_1.entry()), "b", n0(Some(e_2.entry())))));
    let mut store = Store { data, len: 2, ..Default::default() };
    let persisted = store.export_for_persistence();
    let loaded: Store = persisted.into();
    check_present(&loaded, &[s("a"), s("$SYS")], &e_1);
    check_present(&loaded, &[s("a"), s("$SYS"), s("b")], &e_2);
    assert!(loaded.len() == 2, "C09: every user key is exported - a segment $SYS below the root is an ordinary key segment");
    check_present(&store, &[s("a"), s("$SYS")], &e_1);
    kani::cover!(true);
    core::mem::forget(loaded);
    core::mem::forget(store);
}
