// @module store::h
// C05  Child listings and ls-subscriptions show exactly the keys that exist - the parts the C01 family does not
// reach: `Store::pls` (union over all parents matching a pattern) and the child lists REPORTED for ls-subscribers
// by `Store::insert` / `delete` / `delete_matches` (what `Worterbuch::notify_ls_subscribers` then sends, in order:
// the LAST list reported for a subscriber is what it believes `ls` returns).
// Real code: Store::{pls, ncollect_matching_children, add_ls_subscriber, insert, delete, ndelete, delete_matches,
// ndelete_matches, ndelete_child_matches, ls, ls_root}, Node::{trim, ls_owned}.

/// reference for pls: distinct segments at position n = |pattern| of the keys whose first n segments match
fn pls_ref(keys: &[&[&str]], pat: &[&str], x: &str) -> bool {
    let mut f = false;
    let mut i = 0;
    while i < keys.len() {
        let k = keys[i];
        if k.len() > pat.len() {
            let mut m = true;
            let mut j = 0;
            while j < pat.len() {
                if !(pat[j] == "?" || pat[j] == k[j]) {
                    m = false;
                }
                j += 1;
            }
            if m && k[pat.len()] == x {
                f = true;
            }
        }
        i += 1;
    }
    f
}
fn seg(x: &str) -> KeySegment {
    if x == "?" { KeySegment::Wildcard } else if x == "#" { KeySegment::MultiWildcard } else { KeySegment::Regular(s(x)) }
}
fn check_pls(store: &Store, keys: &[&[&str]], pat: &[&str]) {
    let mut p: Vec<KeySegment> = Vec::with_capacity(2);
    let mut i = 0;
    while i < pat.len() {
        p.push(seg(pat[i]));
        i += 1;
    }
    let r = store.pls(&p);
    match &r {
        Ok(l) => {
            let (ea, eb) = (pls_ref(keys, pat, "a"), pls_ref(keys, pat, "b"));
            assert!(has(l, "a") == ea && has(l, "b") == eb, "C05: pls returns the union of the child lists of all parents matching the pattern");
            assert!(l.len() == ea as usize + eb as usize, "C05: pls lists every child once and nothing else");
        }
        Err(_) => assert!(false, "C05: pls with a legal pattern answers"),
    }
    core::mem::forget(r);
    core::mem::forget(p);
}

// @h props=C05 tier=quick cap=600 mem=12 desc="pls of every pattern of <= 2 segments over {a,b,?} (chosen by the solver) on {a/a, a/b, b}: union of the child lists of the matching parents" bounds="keys over {a,b} depth<=2; 12 patterns; values Bool"
#[kani::proof]
#[kani::unwind(5)]
#[kani::stub(std::fmt::format, stub_format)]
fn c05_pls_depth2() {
    let (e1, e2, e3) = (E::any(false), E::any(false), E::any(false));
    let data = n2(None, "a", n2(None, "a", n0(Some(e1.entry())), "b", n0(Some(e2.entry()))), "b", n0(Some(e3.entry())));
    let store = Store { data, len: 3, ..Default::default() };
    let keys: [&[&str]; 3] = [&["a", "a"], &["a", "b"], &["b"]];
    let sel: u8 = kani::any();
    kani::assume(sel < 12);
    match sel {
        0 => check_pls(&store, &keys, &["a"]),
        1 => check_pls(&store, &keys, &["b"]),
        2 => check_pls(&store, &keys, &["?"]),
        3 => check_pls(&store, &keys, &["a", "a"]),
        4 => check_pls(&store, &keys, &["a", "b"]),
        5 => check_pls(&store, &keys, &["a", "?"]),
        6 => check_pls(&store, &keys, &["b", "a"]),
        7 => check_pls(&store, &keys, &["b", "?"]),
        8 => check_pls(&store, &keys, &["?", "a"]),
        9 => check_pls(&store, &keys, &["?", "b"]),
        10 => check_pls(&store, &keys, &["?", "?"]),
        _ => check_pls(&store, &keys, &[]),
    }
    kani::cover!(sel == 10);
    core::mem::forget(store);
}

// @h props=C05 tier=quick cap=600 mem=12 desc="pls on {a/a/b, b}: a value-only leaf next to a deeper branch, patterns with one and two wildcards (chosen by the solver)" bounds="keys over {a,b} depth 3; 8 patterns; values Bool"
#[kani::proof]
#[kani::unwind(6)]
#[kani::stub(std::fmt::format, stub_format)]
fn c05_pls_leaf_next_to_branch() {
    let (e1, e2) = (E::any(false), E::any(false));
    let data = n2(None, "a", n1(None, "a", n1(None, "b", n0(Some(e1.entry())))), "b", n0(Some(e2.entry())));
    let store = Store { data, len: 2, ..Default::default() };
    let keys: [&[&str]; 2] = [&["a", "a", "b"], &["b"]];
    let sel: u8 = kani::any();
    kani::assume(sel < 8);
    match sel {
        0 => check_pls(&store, &keys, &["?"]),
        1 => check_pls(&store, &keys, &["?", "?"]),
        2 => check_pls(&store, &keys, &["?", "a"]),
        3 => check_pls(&store, &keys, &["a", "?"]),
        4 => check_pls(&store, &keys, &["b", "?"]),
        5 => check_pls(&store, &keys, &["a", "a"]),
        6 => check_pls(&store, &keys, &["b"]),
        _ => check_pls(&store, &keys, &["a"]),
    }
    kani::cover!(sel == 1);
    core::mem::forget(store);
}

// ---- ls-subscribers ----------------------------------------------------------------------------------------------
fn add_lssub(store: &mut Store, parent: &[&str], tid: u64) -> tokio::sync::mpsc::Receiver<Vec<RegularKeySegment>> {
    let (tx, rx) = tokio::sync::mpsc::channel::<Vec<RegularKeySegment>>(1);
    let mut p: Vec<RegularKeySegment> = Vec::with_capacity(2);
    let mut i = 0;
    while i < parent.len() {
        p.push(s(parent[i]));
        i += 1;
    }
    let sub = LsSubscriber::new(SubscriptionId::new(cid(1), tid), p.clone(), tx);
    store.add_ls_subscriber(&p, sub);
    rx
}
/// The last child list reported for subscription `tid` must be what ls of its parent returns now; `must_report`:
/// the child set changed, so something must have been reported.
fn check_reported(rep: &Option<Vec<AffectedLsSubscribers>>, tid: u64, store: &Store, parent: &[&str], must_report: bool) {
    let mut last: Option<&Vec<RegularKeySegment>> = None;
    if let Some(rep) = rep {
        let mut i = 0;
        while i < 4 {
            if i < rep.len() {
                let (subs, children) = &rep[i];
                let mut j = 0;
                while j < 2 {
                    if j < subs.len() && subs[j].id.transaction_id == tid {
                        last = Some(children);
                    }
                    j += 1;
                }
                assert!(subs.len() <= 2);
            }
            i += 1;
        }
        assert!(rep.len() <= 4);
    }
    let now = if parent.is_empty() {
        Some(store.ls_root())
    } else if parent.len() == 1 {
        store.ls(&[parent[0]])
    } else {
        store.ls(&[parent[0], parent[1]])
    };
    let (na, nb, nlen) = match &now {
        Some(l) => (has(l, "a"), has(l, "b"), l.len()),
        None => (false, false, 0),
    };
    match last {
        Some(l) => {
            assert!(has(l, "a") == na && has(l, "b") == nb && l.len() == nlen,
                "C05: the last child list reported for an ls-subscriber equals what ls of its parent returns");
        }
        None => assert!(!must_report, "C05: an ls-subscriber is told when the child set of its parent changes"),
    }
    kani::cover!(last.is_some() || !must_report);
    core::mem::forget(now);
}

// @h props=C05 tier=quick cap=600 mem=12 desc="pdelete a/? removes BOTH children of an ls-subscribed parent: the last list reported equals ls (empty)" bounds="shape {a/a, a/b}; values Bool"
#[kani::proof]
#[kani::unwind(5)]
#[kani::stub(std::fmt::format, stub_format)]
fn c05_lssub_pdelete_two_children() {
    let (e1, e2) = (E::any(false), E::any(false));
    let data = n1(None, "a", n2(None, "a", n0(Some(e1.entry())), "b", n0(Some(e2.entry()))));
    let mut store = Store { data, len: 2, ..Default::default() };
    let rx = add_lssub(&mut store, &["a"], 7);
    let pat = [seg("a"), seg("?")];
    let r = store.delete_matches(&pat);
    match &r {
        Ok((m, rep)) => {
            assert!(m.len() == 2, "C04: a/? deletes both children");
            check_reported(rep, 7, &store, &["a"], true);
        }
        Err(_) => assert!(false, "C05: pdelete with a legal pattern answers"),
    }
    core::mem::forget(r);
    core::mem::forget(rx);
    core::mem::forget(store);
}

// @h props=C05 tier=quick cap=600 mem=12 desc="pdelete ? / a/# / # with an ls-subscriber on the ROOT and one on a: last reported lists equal ls_root / ls(a)" bounds="shape {a/a, a/b, b}; 3 patterns chosen by the solver; values Bool"
#[kani::proof]
#[kani::unwind(5)]
#[kani::stub(std::fmt::format, stub_format)]
fn c05_lssub_pdelete_root_and_inner() {
    let (e1, e2, e3) = (E::any(false), E::any(false), E::any(false));
    let data = n2(None, "a", n2(None, "a", n0(Some(e1.entry())), "b", n0(Some(e2.entry()))), "b", n0(Some(e3.entry())));
    let mut store = Store { data, len: 3, ..Default::default() };
    let rx0 = add_lssub(&mut store, &[], 1);
    let rx1 = add_lssub(&mut store, &["a"], 2);
    let sel: u8 = kani::any();
    kani::assume(sel < 3);
    let r = if sel == 0 {
        store.delete_matches(&[seg("?")])            // removes b only: root {a}
    } else if sel == 1 {
        store.delete_matches(&[seg("a"), seg("#")])  // removes a/a, a/b: root {b}, a gone
    } else {
        store.delete_matches(&[seg("?"), seg("a")])  // removes a/a: a keeps {b}
    };
    match &r {
        Ok((m, rep)) => {
            check_reported(rep, 1, &store, &[], sel != 2);
            check_reported(rep, 2, &store, &["a"], sel != 0);
        }
        Err(_) => assert!(false, "C05: pdelete with a legal pattern answers"),
    }
    core::mem::forget(r);
    core::mem::forget(rx0);
    core::mem::forget(rx1);
    core::mem::forget(store);
}

// @h props=C05 tier=quick cap=600 mem=12 desc="delete of one child / of the only child below ls-subscribed parents (root and a): last reported lists equal ls" bounds="shape {a/a, a/b} or {a/a}; values Bool"
#[kani::proof]
#[kani::unwind(5)]
#[kani::stub(std::fmt::format, stub_format)]
fn c05_lssub_delete() {
    let (e1, e2) = (E::any(false), E::any(false));
    let two: bool = kani::any();
    if two {
        let data = n1(None, "a", n2(None, "a", n0(Some(e1.entry())), "b", n0(Some(e2.entry()))));
        let mut store = Store { data, len: 2, ..Default::default() };
        let rx0 = add_lssub(&mut store, &[], 1);
        let rx1 = add_lssub(&mut store, &["a"], 2);
        let r = store.delete(&[s("a"), s("a")]);
        match &r {
            Ok(Some((_, rep))) => {
                check_reported(rep, 1, &store, &[], false);
                check_reported(rep, 2, &store, &["a"], true);
            }
            _ => assert!(false, "C01: delete of a stored key returns its value"),
        }
        core::mem::forget(r);
        core::mem::forget(rx0);
        core::mem::forget(rx1);
        core::mem::forget(store);
    } else {
        let data = n1(None, "a", n1(None, "a", n0(Some(e1.entry()))));
        let mut store = Store { data, len: 1, ..Default::default() };
        let rx0 = add_lssub(&mut store, &[], 1);
        let rx1 = add_lssub(&mut store, &["a"], 2);
        let r = store.delete(&[s("a"), s("a")]);
        match &r {
            Ok(Some((_, rep))) => {
                check_reported(rep, 1, &store, &[], true);
                check_reported(rep, 2, &store, &["a"], true);
            }
            _ => assert!(false, "C01: delete of a stored key returns its value"),
        }
        core::mem::forget(r);
        core::mem::forget(rx0);
        core::mem::forget(rx1);
        core::mem::forget(store);
    }
}

// @h props=C05 tier=quick cap=600 mem=12 desc="set creating a new child below an ls-subscribed existing parent, below a not-yet-existing parent, and below the root: last reported lists equal ls; an overwrite reports nothing wrong" bounds="shapes {a/a} and {}; values Bool"
#[kani::proof]
#[kani::unwind(5)]
#[kani::stub(std::fmt::format, stub_format)]
fn c05_lssub_insert() {
    let e1 = E::any(false);
    let nb: bool = kani::any();
    let sel: u8 = kani::any();
    kani::assume(sel < 3);
    if sel == 0 {
        // new child a/b below the existing parent a
        let data = n1(None, "a", n1(None, "a", n0(Some(e1.entry()))));
        let mut store = Store { data, len: 1, ..Default::default() };
        let rx0 = add_lssub(&mut store, &[], 1);
        let rx1 = add_lssub(&mut store, &["a"], 2);
        let r = store.insert_plain(&[s("a"), s("b")], Value::Bool(nb), false);
        match &r {
            Ok((_, rep)) => {
                check_reported(rep, 1, &store, &[], false);
                check_reported(rep, 2, &store, &["a"], true);
            }
            Err(_) => assert!(false, "C01: set on an absent key is accepted"),
        }
        core::mem::forget(r);
        core::mem::forget(rx0);
        core::mem::forget(rx1);
        core::mem::forget(store);
    } else if sel == 1 {
        // parent does not exist yet
        let data = n0(None);
        let mut store = Store { data, len: 0, ..Default::default() };
        let rx0 = add_lssub(&mut store, &[], 1);
        let rx1 = add_lssub(&mut store, &["a"], 2);
        let r = store.insert_plain(&[s("a"), s("b")], Value::Bool(nb), false);
        match &r {
            Ok((_, rep)) => {
                check_reported(rep, 1, &store, &[], true);
                check_reported(rep, 2, &store, &["a"], true);
            }
            Err(_) => assert!(false, "C01: set on an absent key is accepted"),
        }
        core::mem::forget(r);
        core::mem::forget(rx0);
        core::mem::forget(rx1);
        core::mem::forget(store);
    } else {
        // overwrite: the child sets do not change
        let data = n1(None, "a", n1(None, "a", n0(Some(e1.entry()))));
        let mut store = Store { data, len: 1, ..Default::default() };
        let rx0 = add_lssub(&mut store, &[], 1);
        let rx1 = add_lssub(&mut store, &["a"], 2);
        let r = store.insert_plain(&[s("a"), s("a")], Value::Bool(nb), false);
        match &r {
            Ok((_, rep)) => {
                check_reported(rep, 1, &store, &[], false);
                check_reported(rep, 2, &store, &["a"], false);
            }
            Err(_) => assert!(false, "C01: set on a plain key is accepted"),
        }
        core::mem::forget(r);
        core::mem::forget(rx0);
        core::mem::forget(rx1);
        core::mem::forget(store);
    }
}
