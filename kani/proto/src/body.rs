/// stand-in for worterbuch/src/config.rs
#[derive(Clone, Debug)]
pub struct Config {
    pub auth_token_key: Option<String>,
    pub channel_buffer_size: usize,
}
pub mod auth {
    include!("/repo/worterbuch/src/auth.rs");
}
pub mod worterbuch {
    //! stand-in for the aggregator handle used by v0::aggregate_loop
    use tokio::sync::mpsc;
    use worterbuch_common::{ClientId, PStateEvent, RequestPattern, ServerMessage, TransactionId, error::WorterbuchResult};
    pub struct PStateAggregator;
    impl PStateAggregator {
        pub fn new(_c: mpsc::Sender<ServerMessage>, _p: RequestPattern, _d: std::time::Duration, _t: TransactionId, _b: usize, _id: ClientId) -> Self {
            PStateAggregator
        }
        pub fn aggregate(&self, _e: PStateEvent) -> crate::R<WorterbuchResult<()>> {
            crate::ret(Ok(()))
        }
    }
}
pub mod server {
    pub mod common {
        use crate::Config;
        use std::time::Duration;
        use worterbuch_common::{RequestPattern, TransactionId};
        psrc!("subinfo.rs");
        include!("/verif/kani/proto/src/standin_api.rs");

        pub mod protocol {
            use super::CloneableWbApi;
            use crate::{Config, auth::JwtClaims};
            model_prelude!();
            use tokio::sync::mpsc;
            use tracing::{Instrument, Level, debug, error, instrument, trace, trace_span};
            use v0::V0;
            use v1::V1;
            use worterbuch_common::{
                Ack, ClientId, ClientMessage, ProtocolVersionSegment, ServerMessage, WbApi,
                error::{Context, WorterbuchError, WorterbuchResult},
            };
            pub mod v0 {
                model_prelude!();
                psrc!("v0.rs");
            }
            pub mod v1 {
                model_prelude!();
                psrc!("v1.rs");
            }
            psrc!("proto_items.rs");

            #[cfg(any(kani, feature = "vreplay"))]
            mod h {
                use super::*;
                include!("/verif/kani/proto/src/h/c13.rs");
                include!("/verif/kani/proto/src/h/c15c.rs");
            }
        }
    }
}

