// @module server::common::protocol::h
// C15 (c)  call sites: with authorization required, the protocol handlers let a request through to the core
// only when the session's token grants THE PRIVILEGE THAT REQUEST KIND NEEDS for the requested key/pattern;
// otherwise the core is not called, the request is answered with Err Unauthorized carrying its id and the
// session continues; without any token nothing that needs a privilege reaches the core.
// Real code: V0/V1::process_incoming_message, V0::check_auth, JwtClaims::authorize, pattern_matches (auth.rs),
// handle_store_error. Stand-in core (always succeeds here). Concrete per harness: request kind and protocol
// version; chosen by the solver: which privilege the token grants (none at all / read / write / delete - each
// for the patterns a, a/#, ?) and the transaction id.


const P_NONE: u8 = 0;
const P_READ: u8 = 1;
const P_WRITE: u8 = 2;
const P_DELETE: u8 = 3;
/// the privilege the protocol documentation assigns to each request kind (the reference for this check)
fn privilege_of(kind: u8) -> u8 {
    match kind {
        K_GET | K_CGET | K_PGET | K_SUBSCRIBE | K_PSUBSCRIBE | K_LS | K_PLS | K_SUBSCRIBE_LS => P_READ,
        K_SET | K_CSET | K_SPUB_INIT | K_PUBLISH | K_LOCK | K_ACQUIRE | K_RELEASE => P_WRITE,
        K_DELETE | K_PDELETE => P_DELETE,
        _ => P_NONE, // spub (stream opened by an authorized spub_init), unsubscribe, unsubscribe_ls
    }
}
fn grants() -> Option<Vec<String>> {
    let mut v = Vec::with_capacity(3);
    v.push(s("a"));
    v.push(s("a/#"));
    v.push(s("?"));
    Some(v)
}
fn claims_granting(p: u8) -> JwtClaims {
    JwtClaims {
        sub: s("u"),
        name: s("n"),
        exp: 0,
        worterbuch_privileges: Privileges {
            read: if p == P_READ { grants() } else { None },
            write: if p == P_WRITE { grants() } else { None },
            delete: if p == P_DELETE { grants() } else { None },
            profile: None,
            web_login: None,
        },
    }
}
fn c15c_one(v1: bool, kind: u8, granted: u8) {
    let tid: u64 = kani::any();
    let (api, script) = CloneableWbApi::scripted(0);
    let (tx, mut rx) = mpsc::channel::<ServerMessage>(4);
    let proto = Proto::new(ClientId::from_u128(1), tx, true, Config { auth_token_key: None, channel_buffer_size: 4 }, api);
    let mut authorized: Option<JwtClaims> = if granted == P_NONE { None } else { Some(claims_granting(granted)) };
    // (the handlers are built by the real Proto::new; v1 is what a session speaks after the handshake, v0 after
    // a protocol switch to version 0)
    let r = if v1 {
        aw!(proto.latest.process_incoming_message(request(kind, tid), &mut authorized))
    } else {
        aw!(proto.latest.v0.process_incoming_message(request(kind, tid), &mut authorized))
    };
    core::mem::forget(proto);
    let calls = unsafe { (*script).calls };
    let needs = privilege_of(kind);
    let ok = r.is_ok();
    core::mem::forget(r);
    core::mem::forget(authorized);
    if granted == P_NONE {
        if needs != P_NONE {
            assert!(calls == 0, "C15: no request is served before a valid token was presented");
        }
        return;
    }
    let first = rx.try_recv();
    if needs == P_NONE || needs == granted {
        assert!(ok && calls == 1, "C15: a request covered by the grant of its privilege is served");
        if kind != K_ACQUIRE {
            match &first {
                Ok(m) => {
                    let (ak, atid, _) = classify(m);
                    assert!(atid == tid && ak == expected_ok(kind), "C13: served request answered with its own id and kind");
                }
                Err(_) => assert!(false, "C13: every request gets an answer"),
            }
        }
    } else {
        assert!(calls == 0, "C15: a request whose privilege the token does not grant never reaches the core (no effect)");
        assert!(ok, "C15/C13: an unauthorized request does not end the session");
        match &first {
            Ok(m) => {
                let (ak, atid, code) = classify(m);
                assert!(ak == A_ERR && atid == tid, "C15: requests outside the grant are answered with an error carrying their id");
                assert!(code == Some(ErrorCode::Unauthorized), "C15: ... an authorization error");
            }
            Err(_) => assert!(false, "C15: requests outside the grant are answered"),
        }
    }
    core::mem::forget(first);
    let second = rx.try_recv();
    assert!(second.is_err(), "C13: exactly one answer");
    core::mem::forget(second);
}
fn c15c_kind(v1: bool, kind: u8) {
    let g: u8 = kani::any();
    kani::assume(g <= 3);
    if g == 0 {
        c15c_one(v1, kind, P_NONE)
    } else if g == 1 {
        c15c_one(v1, kind, P_READ)
    } else if g == 2 {
        c15c_one(v1, kind, P_WRITE)
    } else {
        c15c_one(v1, kind, P_DELETE)
    }
    kani::cover!(g == 0);
    kani::cover!(g == 3);
}
macro_rules! c15ch {
    ($name:ident, $v1:expr, $kind:expr) => {
        #[kani::proof]
        #[kani::unwind(8)]
        #[kani::stub(std::fmt::format, stub_format)]
        #[kani::stub(std::mem::MaybeUninit::write, stub_mu_write)]
        #[kani::stub(::miette::eyreish::capture_handler, stub_capture_handler)]
        fn $name() {
            c15c_kind($v1, $kind)
        }
    };
}
// @h props=C15 tier=quick cap=1200 desc="auth on, v1 get(a): served iff the token grants READ for a" bounds="token: none/read/write/delete grant; tid u64"
c15ch!(c15c_v1_get, true, K_GET);
// @h props=C15 tier=thorough cap=1200 desc="auth on, v1 cget(a): READ" bounds="token: none/read/write/delete grant; tid u64"
c15ch!(c15c_v1_cget, true, K_CGET);
// @h props=C15 tier=quick cap=1200 desc="auth on, v1 pget(a/#): READ" bounds="token: none/read/write/delete grant; tid u64"
c15ch!(c15c_v1_pget, true, K_PGET);
// @h props=C15 tier=quick cap=1200 desc="auth on, v1 set(a): WRITE" bounds="token: none/read/write/delete grant; tid u64"
c15ch!(c15c_v1_set, true, K_SET);
// (tier=manual: exhausts its memory cap - the cset handler next to the authorization error path; set / lock cover the WRITE privilege)
// @h props=C15 tier=manual cap=1200 desc="auth on, v1 cset(a): WRITE" bounds="token: none/read/write/delete grant; tid u64"
c15ch!(c15c_v1_cset, true, K_CSET);
// @h props=C15 tier=thorough cap=1200 desc="auth on, v1 spub_init(a): WRITE" bounds="token: none/read/write/delete grant; tid u64"
c15ch!(c15c_v1_spub_init, true, K_SPUB_INIT);
// @h props=C15 tier=thorough cap=1200 desc="auth on, v1 publish(a): WRITE" bounds="token: none/read/write/delete grant; tid u64"
c15ch!(c15c_v1_publish, true, K_PUBLISH);
// @h props=C15 tier=quick cap=1200 desc="auth on, v1 subscribe(a): READ" bounds="token: none/read/write/delete grant; tid u64"
c15ch!(c15c_v1_subscribe, true, K_SUBSCRIBE);
// @h props=C15 tier=thorough cap=1200 desc="auth on, v1 psubscribe(a/#): READ" bounds="token: none/read/write/delete grant; tid u64"
c15ch!(c15c_v1_psubscribe, true, K_PSUBSCRIBE);
// @h props=C15 tier=quick cap=1200 desc="auth on, v1 delete(a): DELETE" bounds="token: none/read/write/delete grant; tid u64"
c15ch!(c15c_v1_delete, true, K_DELETE);
// @h props=C15 tier=quick cap=1200 desc="auth on, v1 pdelete(a/#): DELETE" bounds="token: none/read/write/delete grant; tid u64"
c15ch!(c15c_v1_pdelete, true, K_PDELETE);
// @h props=C15 tier=quick cap=1200 desc="auth on, v1 ls(root): READ for ?" bounds="token: none/read/write/delete grant; tid u64"
c15ch!(c15c_v1_ls, true, K_LS);
// @h props=C15 tier=thorough cap=1200 desc="auth on, v1 pls(root): READ for ?" bounds="token: none/read/write/delete grant; tid u64"
c15ch!(c15c_v1_pls, true, K_PLS);
// @h props=C15 tier=thorough cap=1200 desc="auth on, v1 subscribe_ls(root): READ for ?" bounds="token: none/read/write/delete grant; tid u64"
c15ch!(c15c_v1_subscribe_ls, true, K_SUBSCRIBE_LS);
// @h props=C15,C06 tier=quick cap=1200 desc="auth on, v1 lock(a): WRITE" bounds="token: none/read/write/delete grant; tid u64"
c15ch!(c15c_v1_lock, true, K_LOCK);
// @h props=C15,C06 tier=thorough cap=1200 desc="auth on, v1 acquire_lock(a): WRITE" bounds="token: none/read/write/delete grant; tid u64"
c15ch!(c15c_v1_acquire_lock, true, K_ACQUIRE);
// @h props=C15,C06 tier=thorough cap=1200 desc="auth on, v1 release_lock(a): WRITE" bounds="token: none/read/write/delete grant; tid u64"
c15ch!(c15c_v1_release_lock, true, K_RELEASE);
// @h props=C15 tier=thorough cap=1200 desc="auth on, v0 get(a): READ" bounds="token: none/read/write/delete grant; tid u64"
c15ch!(c15c_v0_get, false, K_GET);
// @h props=C15 tier=thorough cap=1200 desc="auth on, v0 set(a): WRITE" bounds="token: none/read/write/delete grant; tid u64"
c15ch!(c15c_v0_set, false, K_SET);
// @h props=C15 tier=thorough cap=1200 desc="auth on, v0 pdelete(a/#): DELETE" bounds="token: none/read/write/delete grant; tid u64"
c15ch!(c15c_v0_pdelete, false, K_PDELETE);

/// two requests on ONE session: the decision for the second request must not depend on the first one
/// (same key string, different privilege)
fn c15c_seq(first: u8, second: u8, granted: u8) {
    let (api, script) = CloneableWbApi::scripted(0);
    let (tx, mut rx) = mpsc::channel::<ServerMessage>(4);
    let proto = Proto::new(ClientId::from_u128(1), tx, true, Config { auth_token_key: None, channel_buffer_size: 4 }, api);
    let mut authorized: Option<JwtClaims> = Some(claims_granting(granted));
    let r1 = aw!(proto.latest.process_incoming_message(request(first, 1), &mut authorized));
    let calls1 = unsafe { (*script).calls };
    let r2 = aw!(proto.latest.process_incoming_message(request(second, 2), &mut authorized));
    let calls2 = unsafe { (*script).calls };
    assert!(r1.is_ok() && r2.is_ok(), "C13: neither request ends the session");
    core::mem::forget((r1, r2));
    core::mem::forget(authorized);
    core::mem::forget(proto);
    let want1 = privilege_of(first) == granted;
    let want2 = privilege_of(second) == granted;
    assert!((calls1 == 1) == want1, "C15: first request served iff its privilege is granted");
    assert!((calls2 - calls1 == 1) == want2, "C15: a request outside the grant is not served because an earlier request on the same key was");
    let a1 = rx.try_recv();
    let a2 = rx.try_recv();
    match (&a1, &a2) {
        (Ok(m1), Ok(m2)) => {
            let (k1, t1, c1) = classify(m1);
            let (k2, t2, c2) = classify(m2);
            assert!(t1 == 1 && t2 == 2, "C13: answers in request order with their own ids");
            assert!((k1 == A_ERR) == !want1 && (k2 == A_ERR) == !want2, "C15: exactly the requests outside the grant are answered with an error");
            if !want2 {
                assert!(c2 == Some(ErrorCode::Unauthorized), "C15: an authorization error");
            }
        }
        _ => assert!(false, "C13: both requests are answered"),
    }
    core::mem::forget((a1, a2));
    kani::cover!(true);
}
macro_rules! c15cs {
    ($name:ident, $a:expr, $b:expr, $g:expr) => {
        #[kani::proof]
        #[kani::unwind(8)]
        #[kani::stub(std::fmt::format, stub_format)]
        #[kani::stub(std::mem::MaybeUninit::write, stub_mu_write)]
        #[kani::stub(::miette::eyreish::capture_handler, stub_capture_handler)]
        fn $name() {
            c15c_seq($a, $b, $g)
        }
    };
}
// @h props=C15 tier=quick cap=1200 desc="auth on, read-only token: get(a) served, then set(a) on the same session refused" bounds="2 requests, one session"
c15cs!(c15c_seq_get_then_set, K_GET, K_SET, P_READ);
// @h props=C15 tier=quick cap=1200 desc="auth on, read-only token: pget(a/#) served, then pdelete(a/#) refused" bounds="2 requests, one session"
c15cs!(c15c_seq_pget_then_pdelete, K_PGET, K_PDELETE, P_READ);
// @h props=C15 tier=quick cap=1200 desc="auth on, write-only token: set(a) served, then delete(a) refused" bounds="2 requests, one session"
c15cs!(c15c_seq_set_then_delete, K_SET, K_DELETE, P_WRITE);
// @h props=C15 tier=thorough cap=1200 desc="auth on, write-only token: set(a) served, then get(a) refused" bounds="2 requests, one session"
c15cs!(c15c_seq_set_then_get, K_SET, K_GET, P_WRITE);
