// @module server::common::protocol::h
// C13  Every request gets exactly one answer carrying its own transaction id.
// C15 (c)  with authorization on, no core call before a token was presented / outside the grant.
//
// Real code: V0::process_incoming_message + every per-request handler of v0.rs, V1::process_incoming_message +
// handlers of v1.rs, check_auth, handle_store_error, ErrorCode::from(&WorterbuchError). The core is the
// nondeterministic stand-in (src/standin_api.rs): Ok(canned result) or one of 8 errors, chosen by the solver
// (case split); the transaction id is any u64; the request kind is concrete per harness.
use crate::server::common::{CloneableWbApi, Script, error_of, N_ERRORS};
use crate::auth::Privileges;
use worterbuch_common::{
    CSet, ClientMessage as CM, Delete, ErrorCode, Get, Lock, Ls, PDelete, PGet, PLs, PSubscribe, Publish, SPub, SPubInit, Set, Subscribe,
    SubscribeLs, Transform, Unsubscribe, UnsubscribeLs, Value,
};

fn s(x: &str) -> String {
    x.to_owned()
}
fn stub_format(_args: core::fmt::Arguments<'_>) -> String {
    String::new()
}
fn stub_mu_write<T>(this: &mut core::mem::MaybeUninit<T>, val: T) -> &mut T {
    let p = this.as_mut_ptr();
    unsafe {
        p.write(val);
        &mut *p
    }
}
struct NullHandler;
impl miette::ReportHandler for NullHandler {
    fn debug(&self, _e: &dyn miette::Diagnostic, _f: &mut core::fmt::Formatter<'_>) -> core::fmt::Result {
        Ok(())
    }
}
fn stub_capture_handler(_error: &(dyn miette::Diagnostic + 'static)) -> Box<dyn miette::ReportHandler> {
    Box::new(NullHandler)
}

const K_GET: u8 = 0;
const K_CGET: u8 = 1;
const K_PGET: u8 = 2;
const K_SET: u8 = 3;
const K_CSET: u8 = 4;
const K_SPUB_INIT: u8 = 5;
const K_SPUB: u8 = 6;
const K_PUBLISH: u8 = 7;
const K_SUBSCRIBE: u8 = 8;
const K_PSUBSCRIBE: u8 = 9;
const K_UNSUBSCRIBE: u8 = 10;
const K_DELETE: u8 = 11;
const K_PDELETE: u8 = 12;
const K_LS: u8 = 13;
const K_PLS: u8 = 14;
const K_SUBSCRIBE_LS: u8 = 15;
const K_UNSUBSCRIBE_LS: u8 = 16;
const K_LOCK: u8 = 17;
const K_ACQUIRE: u8 = 18;
const K_RELEASE: u8 = 19;
const K_TRANSFORM: u8 = 20;

fn request(kind: u8, tid: u64) -> CM {
    match kind {
        K_GET => CM::Get(Get { transaction_id: tid, key: s("a") }),
        K_CGET => CM::CGet(Get { transaction_id: tid, key: s("a") }),
        K_PGET => CM::PGet(PGet { transaction_id: tid, request_pattern: s("a/#") }),
        K_SET => CM::Set(Set { transaction_id: tid, key: s("a"), value: Value::Bool(true) }),
        K_CSET => CM::CSet(CSet { transaction_id: tid, key: s("a"), value: Value::Bool(true), version: 3 }),
        K_SPUB_INIT => CM::SPubInit(SPubInit { transaction_id: tid, key: s("a") }),
        K_SPUB => CM::SPub(SPub { transaction_id: tid, value: Value::Bool(true) }),
        K_PUBLISH => CM::Publish(Publish { transaction_id: tid, key: s("a"), value: Value::Bool(true) }),
        K_SUBSCRIBE => CM::Subscribe(Subscribe { transaction_id: tid, key: s("a"), unique: false, live_only: None }),
        K_PSUBSCRIBE => CM::PSubscribe(PSubscribe { transaction_id: tid, request_pattern: s("a/#"), unique: false, aggregate_events: None, live_only: None }),
        K_UNSUBSCRIBE => CM::Unsubscribe(Unsubscribe { transaction_id: tid }),
        K_DELETE => CM::Delete(Delete { transaction_id: tid, key: s("a") }),
        K_PDELETE => CM::PDelete(PDelete { transaction_id: tid, request_pattern: s("a/#"), quiet: None }),
        K_LS => CM::Ls(Ls { transaction_id: tid, parent: None }),
        K_PLS => CM::PLs(PLs { transaction_id: tid, parent_pattern: None }),
        K_SUBSCRIBE_LS => CM::SubscribeLs(SubscribeLs { transaction_id: tid, parent: None }),
        K_UNSUBSCRIBE_LS => CM::UnsubscribeLs(UnsubscribeLs { transaction_id: tid }),
        K_LOCK => CM::Lock(Lock { transaction_id: tid, key: s("a") }),
        K_ACQUIRE => CM::AcquireLock(Lock { transaction_id: tid, key: s("a") }),
        K_RELEASE => CM::ReleaseLock(Lock { transaction_id: tid, key: s("a") }),
        _ => CM::Transform(Transform { transaction_id: tid, key: s("a"), template: Value::Null }),
    }
}
/// kind of the terminal answer the protocol assigns to a successful request (constants below)
const A_ACK: u8 = 1;
const A_STATE: u8 = 2;
const A_PSTATE: u8 = 3;
const A_CSTATE: u8 = 4;
const A_LSSTATE: u8 = 5;
const A_ERR: u8 = 6;
const A_OTHER: u8 = 7;
fn expected_ok(kind: u8) -> u8 {
    match kind {
        K_GET | K_DELETE => A_STATE,
        K_CGET => A_CSTATE,
        K_PGET | K_PDELETE => A_PSTATE,
        K_LS | K_PLS => A_LSSTATE,
        _ => A_ACK,
    }
}
fn classify(m: &ServerMessage) -> (u8, u64, Option<ErrorCode>) {
    match m {
        ServerMessage::Ack(a) => (A_ACK, a.transaction_id, None),
        ServerMessage::State(x) => (A_STATE, x.transaction_id, None),
        ServerMessage::PState(x) => (A_PSTATE, x.transaction_id, None),
        ServerMessage::CState(x) => (A_CSTATE, x.transaction_id, None),
        ServerMessage::LsState(x) => (A_LSSTATE, x.transaction_id, None),
        ServerMessage::Err(e) => (A_ERR, e.transaction_id, Some(e.error_code.clone())),
        _ => (A_OTHER, 0, None),
    }
}

/// one request of `kind` on protocol v0 or v1 (what a session speaks after the handshake), the core failing
/// with error number `fail` (0 = succeeds)
fn c13_one(v1: bool, kind: u8, fail: u8) {
    let tid: u64 = kani::any();
    let (api, script) = CloneableWbApi::scripted(fail);
    let (tx, mut rx) = mpsc::channel::<ServerMessage>(4);
    let cid = ClientId::from_u128(1);
    let proto = Proto::new(cid, tx, false, Config { auth_token_key: None, channel_buffer_size: 4 }, api);
    let mut authorized: Option<JwtClaims> = None;
    let spawned0 = crate::tasks_spawned();
    // (the handlers are built by the real Proto::new; v1 is what a session speaks after the handshake, v0 after
    // a protocol switch to version 0)
    let r = if v1 {
        aw!(proto.latest.process_incoming_message(request(kind, tid), &mut authorized))
    } else {
        aw!(proto.latest.v0.process_incoming_message(request(kind, tid), &mut authorized))
    };
    core::mem::forget(proto);
    // a request - also one the core refuses - never ends the session
    assert!(r.is_ok(), "C13: a request that fails does not end the session (the handler returns Ok, the answer is an Err message)");
    core::mem::forget(r);
    let calls = unsafe { (*script).calls };
    assert!(calls == 1, "C13: one request is one call into the core");
    let first = rx.try_recv();
    if kind == K_ACQUIRE && fail == 0 {
        // the confirmation arrives later, from the task that waits for the grant: nothing queued yet, one task
        assert!(first.is_err(), "C13: acquire-lock is confirmed when the lock is granted, not before");
        if let (Some(a), Some(b)) = (spawned0, crate::tasks_spawned()) {
            assert!(b == a + 1, "C13: exactly one confirmation task");
        }
        core::mem::forget(first);
        return;
    }
    match &first {
        Ok(m) => {
            let (ak, atid, code) = classify(m);
            assert!(atid == tid, "C13: the answer carries the transaction id of its request");
            if fail == 0 {
                assert!(ak == expected_ok(kind), "C13: the answer is of the kind the protocol assigns to the request");
            } else {
                assert!(ak == A_ERR, "C13: a refused request is answered with an Err message");
                assert!(code == Some(ErrorCode::from(&error_of(fail))), "C13: ... carrying the error code of the reason");
            }
        }
        Err(_) => assert!(false, "C13: every request gets an answer"),
    }
    core::mem::forget(first);
    let second = rx.try_recv();
    assert!(second.is_err(), "C13: exactly one terminal answer per request");
    core::mem::forget(second);
    // forwarding tasks exist only for successful subscriptions, and only after their Ack was queued
    let subs = kind == K_SUBSCRIBE || kind == K_PSUBSCRIBE || kind == K_SUBSCRIBE_LS;
    if let (Some(a), Some(b)) = (spawned0, crate::tasks_spawned()) {
        assert!(b - a == if subs && fail == 0 { 1 } else { 0 }, "C13: a forwarding task is started exactly for an acknowledged subscription");
    }
}
fn c13_kind(v1: bool, kind: u8) {
    let fail: u8 = kani::any();
    kani::assume(fail <= 3);
    // the solver picks the core's answer; every branch is a concrete scenario
    if fail == 0 {
        c13_one(v1, kind, 0)
    } else if fail == 1 {
        c13_one(v1, kind, 1)
    } else if fail == 2 {
        c13_one(v1, kind, 4)
    } else {
        c13_one(v1, kind, 8)
    }
    kani::cover!(fail == 0);
    kani::cover!(fail == 3);
}
macro_rules! c13h4 {
    ($name:ident, $g:expr) => {
        #[kani::proof]
        #[kani::unwind(6)]
        #[kani::stub(std::fmt::format, stub_format)]
        #[kani::stub(std::mem::MaybeUninit::write, stub_mu_write)]
        #[kani::stub(::miette::eyreish::capture_handler, stub_capture_handler)]
        fn $name() {
            c13_acquire_outcome($g)
        }
    };
}
macro_rules! c13h {
    ($name:ident, $v1:expr, $kind:expr) => {
        #[kani::proof]
        #[kani::unwind(6)]
        #[kani::stub(std::fmt::format, stub_format)]
        #[kani::stub(std::mem::MaybeUninit::write, stub_mu_write)]
        #[kani::stub(::miette::eyreish::capture_handler, stub_capture_handler)]
        fn $name() {
            c13_kind($v1, $kind)
        }
    };
}
// @h props=C13 tier=quick cap=900 desc="v1 get: one State / Err answer with the request's id, core answer chosen by the solver (ok, NoSuchValue, CasVersionMismatch, NotLeader)" bounds="tid u64; 4 core answers"
c13h!(c13_v1_get, true, K_GET);
// @h props=C13 tier=thorough cap=900 desc="v1 cget" bounds="tid u64; 4 core answers"
c13h!(c13_v1_cget, true, K_CGET);
// @h props=C13 tier=quick cap=900 desc="v1 pget" bounds="tid u64; 4 core answers"
c13h!(c13_v1_pget, true, K_PGET);
// @h props=C13 tier=quick cap=900 desc="v1 set" bounds="tid u64; 4 core answers"
c13h!(c13_v1_set, true, K_SET);
// @h props=C13 tier=quick cap=900 desc="v1 cset" bounds="tid u64; 4 core answers"
c13h!(c13_v1_cset, true, K_CSET);
// @h props=C13 tier=thorough cap=900 desc="v1 spub_init" bounds="tid u64; 4 core answers"
c13h!(c13_v1_spub_init, true, K_SPUB_INIT);
// @h props=C13 tier=thorough cap=900 desc="v1 spub" bounds="tid u64; 4 core answers"
c13h!(c13_v1_spub, true, K_SPUB);
// @h props=C13 tier=thorough cap=900 desc="v1 publish" bounds="tid u64; 4 core answers"
c13h!(c13_v1_publish, true, K_PUBLISH);
// @h props=C13 tier=quick cap=900 desc="v1 subscribe: Ack before the forwarding task, no task for a refused subscription" bounds="tid u64; 4 core answers"
c13h!(c13_v1_subscribe, true, K_SUBSCRIBE);
// @h props=C13 tier=quick cap=900 desc="v1 psubscribe" bounds="tid u64; 4 core answers"
c13h!(c13_v1_psubscribe, true, K_PSUBSCRIBE);
// @h props=C13 tier=quick cap=900 desc="v1 unsubscribe" bounds="tid u64; 4 core answers"
c13h!(c13_v1_unsubscribe, true, K_UNSUBSCRIBE);
// @h props=C13 tier=quick cap=900 desc="v1 delete" bounds="tid u64; 4 core answers"
c13h!(c13_v1_delete, true, K_DELETE);
// @h props=C13 tier=quick cap=900 desc="v1 pdelete" bounds="tid u64; 4 core answers"
c13h!(c13_v1_pdelete, true, K_PDELETE);
// @h props=C13 tier=quick cap=900 desc="v1 ls" bounds="tid u64; 4 core answers"
c13h!(c13_v1_ls, true, K_LS);
// @h props=C13 tier=thorough cap=900 desc="v1 pls" bounds="tid u64; 4 core answers"
c13h!(c13_v1_pls, true, K_PLS);
// @h props=C13 tier=thorough cap=900 desc="v1 subscribe_ls" bounds="tid u64; 4 core answers"
c13h!(c13_v1_subscribe_ls, true, K_SUBSCRIBE_LS);
// @h props=C13 tier=thorough cap=900 desc="v1 unsubscribe_ls" bounds="tid u64; 4 core answers"
c13h!(c13_v1_unsubscribe_ls, true, K_UNSUBSCRIBE_LS);
// @h props=C13 tier=quick cap=900 desc="v1 lock" bounds="tid u64; 4 core answers"
c13h!(c13_v1_lock, true, K_LOCK);
// @h props=C13 tier=quick cap=900 desc="v1 acquire_lock: nothing queued before the grant, one confirmation task; refused -> Err" bounds="tid u64; 4 core answers"
c13h!(c13_v1_acquire_lock, true, K_ACQUIRE);
/// the confirmation task of an accepted acquire_lock: exactly one terminal answer with the request's id - an Ack
/// when the lock is granted, Err LockAcquisitionCancelled when the core drops the request (the waiter gave up or
/// was removed from the queue) - and only then
fn c13_acquire_outcome(granted: bool) {
    let tid: u64 = kani::any();
    let (api, script) = CloneableWbApi::scripted(0);
    let (tx, mut rx) = mpsc::channel::<ServerMessage>(4);
    let proto = Proto::new(ClientId::from_u128(1), tx, false, Config { auth_token_key: None, channel_buffer_size: 4 }, api);
    let mut authorized: Option<JwtClaims> = None;
    let r = aw!(proto.latest.process_incoming_message(request(K_ACQUIRE, tid), &mut authorized));
    assert!(r.is_ok(), "C13: acquire_lock accepted");
    core::mem::forget(r);
    // (in the model a task that has to wait never completes - the path would be pruned - so the task is only
    // run after the core decided; natively the runtime may schedule it at once)
    if crate::tasks_spawned().is_none() {
        crate::run_tasks();
    }
    let early = rx.try_recv();
    assert!(early.is_err(), "C13: no confirmation before the core decided");
    core::mem::forget(early);
    let ltx = unsafe { core::ptr::replace(&mut (*script).lock_tx, None) };
    match ltx {
        Some(t) => {
            if granted {
                let x = t.send(());
                core::mem::forget(x);
            } else {
                drop(t);
            }
        }
        None => assert!(false, "stand-in: acquire_lock reached the core"),
    }
    crate::run_tasks();
    let first = rx.try_recv();
    match &first {
        Ok(m) => {
            let (ak, atid, code) = classify(m);
            assert!(atid == tid, "C13: the confirmation carries the id of its acquire_lock request");
            if granted {
                assert!(ak == A_ACK, "C13: a granted lock is confirmed with an Ack");
            } else {
                assert!(ak == A_ERR && code == Some(ErrorCode::LockAcquisitionCancelled), "C13: a cancelled acquire_lock is answered with Err LockAcquisitionCancelled");
            }
        }
        Err(_) => assert!(false, "C13: every acquire_lock gets its terminal answer once the core has decided (granted or cancelled)"),
    }
    core::mem::forget(first);
    let second = rx.try_recv();
    assert!(second.is_err(), "C13: exactly one terminal answer");
    core::mem::forget(second);
    core::mem::forget(proto);
    kani::cover!(true);
}
// @h props=C13,C06 tier=quick cap=900 desc="v1 acquire_lock, lock granted later: the confirmation task answers Ack with the request's id, once" bounds="tid u64"
c13h4!(c13_v1_acquire_granted, true);
// @h props=C13,C06 tier=quick cap=900 desc="v1 acquire_lock, request cancelled by the core: the task answers Err LockAcquisitionCancelled with the request's id, once" bounds="tid u64"
c13h4!(c13_v1_acquire_cancelled, false);
// @h props=C13 tier=quick cap=900 desc="v1 release_lock" bounds="tid u64; 4 core answers"
c13h!(c13_v1_release_lock, true, K_RELEASE);
// @h props=C13 tier=quick cap=900 desc="v0 get" bounds="tid u64; 4 core answers"
c13h!(c13_v0_get, false, K_GET);
// @h props=C13 tier=quick cap=900 desc="v0 set" bounds="tid u64; 4 core answers"
c13h!(c13_v0_set, false, K_SET);
// @h props=C13 tier=quick cap=900 desc="v0 subscribe" bounds="tid u64; 4 core answers"
c13h!(c13_v0_subscribe, false, K_SUBSCRIBE);
// @h props=C13 tier=thorough cap=900 desc="v0 pdelete" bounds="tid u64; 4 core answers"
c13h!(c13_v0_pdelete, false, K_PDELETE);

macro_rules! c13h2 {
    ($name:ident, $v1:expr, $kind:expr) => {
        #[kani::proof]
        #[kani::unwind(6)]
        #[kani::stub(std::fmt::format, stub_format)]
        #[kani::stub(std::mem::MaybeUninit::write, stub_mu_write)]
        #[kani::stub(::miette::eyreish::capture_handler, stub_capture_handler)]
        fn $name() {
            c13_unimplemented($v1, $kind)
        }
    };
}
macro_rules! c13h3 {
    ($name:ident, $n:expr) => {
        #[kani::proof]
        #[kani::unwind(6)]
        #[kani::stub(std::fmt::format, stub_format)]
        #[kani::stub(std::mem::MaybeUninit::write, stub_mu_write)]
        #[kani::stub(::miette::eyreish::capture_handler, stub_capture_handler)]
        fn $name() {
            let k: u8 = kani::any();
            kani::assume(k < 3);
            if k == 0 {
                c13_unimplemented(false, K_LOCK)
            } else if k == 1 {
                c13_unimplemented(false, K_ACQUIRE)
            } else {
                c13_unimplemented(false, K_RELEASE)
            }
        }
    };
}
/// request kinds the selected protocol version does not implement must still be ANSWERED (with an error)
fn c13_unimplemented(v1: bool, kind: u8) {
    let tid: u64 = kani::any();
    let (api, script) = CloneableWbApi::scripted(0);
    let (tx, mut rx) = mpsc::channel::<ServerMessage>(4);
    let proto = Proto::new(ClientId::from_u128(1), tx, false, Config { auth_token_key: None, channel_buffer_size: 4 }, api);
    let mut authorized: Option<JwtClaims> = None;
    // (the handlers are built by the real Proto::new; v1 is what a session speaks after the handshake, v0 after
    // a protocol switch to version 0)
    let r = if v1 {
        aw!(proto.latest.process_incoming_message(request(kind, tid), &mut authorized))
    } else {
        aw!(proto.latest.v0.process_incoming_message(request(kind, tid), &mut authorized))
    };
    core::mem::forget(proto);
    let ended = r.is_err();
    core::mem::forget(r);
    let first = rx.try_recv();
    let answered = matches!(&first, Ok(ServerMessage::Err(e)) if e.transaction_id == tid && e.error_code == ErrorCode::NotImplemented);
    core::mem::forget(first);
    assert!(!ended && answered, "C13: a request kind the negotiated protocol version does not implement is answered with an Err carrying its id, the session continues (fixed finding KF-C13-unimplemented-ends-session)");
    kani::cover!(true);
}
// @h props=C13,C17 tier=quick cap=600 desc="v1 transform (not implemented): must be answered with an Err carrying its id, session continues" bounds="tid u64"
c13h2!(c13_v1_transform_unimplemented, true, K_TRANSFORM);
// @h props=C13 tier=quick cap=600 desc="v0 cset (v1-only request on a v0 session): must be answered with an Err carrying its id" bounds="tid u64"
c13h2!(c13_v0_cset_unimplemented, false, K_CSET);
// @h props=C13 tier=quick cap=600 desc="v0 cget (v1-only request on a v0 session)" bounds="tid u64"
c13h2!(c13_v0_cget_unimplemented, false, K_CGET);
// @h props=C13 tier=quick cap=600 desc="v0 lock / acquire_lock / release_lock (v1-only requests on a v0 session), kind chosen by the solver" bounds="tid u64; 3 kinds"
c13h3!(c13_v0_locks_unimplemented, 3);

// ------------------------------------------------------------------ the error code of every reason
/// `ErrorCode::from(&WorterbuchError)` (worterbuch-common/src/error.rs) for every variant of the error type that
/// can be built here: the code an Err message carries must be the code NAMED after the reason.
fn c13_code_of(n: u8) -> (WorterbuchError, ErrorCode) {
    use worterbuch_common::error::AuthorizationError;
    match n {
        0 => (WorterbuchError::IllegalWildcard(s("p")), ErrorCode::IllegalWildcard),
        1 => (WorterbuchError::IllegalMultiWildcard(s("p")), ErrorCode::IllegalMultiWildcard),
        2 => (WorterbuchError::MultiWildcardAtIllegalPosition(s("p")), ErrorCode::MultiWildcardAtIllegalPosition),
        3 => (WorterbuchError::NoSuchValue(s("k")), ErrorCode::NoSuchValue),
        4 => (WorterbuchError::NotSubscribed, ErrorCode::NotSubscribed),
        5 => (WorterbuchError::InvalidServerResponse(s("m")), ErrorCode::InvalidServerResponse),
        6 => (WorterbuchError::ProtocolNegotiationFailed(3), ErrorCode::ProtocolNegotiationFailed),
        7 => (WorterbuchError::ReadOnlyKey(s("k")), ErrorCode::ReadOnlyKey),
        8 => (WorterbuchError::AuthorizationRequired(worterbuch_common::Privilege::Read), ErrorCode::AuthorizationRequired),
        9 => (WorterbuchError::AlreadyAuthorized, ErrorCode::AlreadyAuthorized),
        10 => (WorterbuchError::Unauthorized(AuthorizationError::MissingToken), ErrorCode::Unauthorized),
        11 => (WorterbuchError::NoPubStream(7), ErrorCode::NoPubStream),
        12 => (WorterbuchError::NotLeader, ErrorCode::NotLeader),
        13 => (WorterbuchError::Cas, ErrorCode::Cas),
        14 => (WorterbuchError::CasVersionMismatch, ErrorCode::CasVersionMismatch),
        15 => (WorterbuchError::NotImplemented, ErrorCode::NotImplemented),
        16 => (WorterbuchError::KeyIsLocked(s("k")), ErrorCode::KeyIsLocked),
        17 => (WorterbuchError::KeyIsNotLocked(s("k")), ErrorCode::KeyIsNotLocked),
        18 => (WorterbuchError::FeatureDisabled(s("m")), ErrorCode::FeatureDisabled),
        19 => (WorterbuchError::ClientIdCollision(ClientId::from_u128(1)), ErrorCode::ClientIDCollision),
        _ => (WorterbuchError::EmptyKey, ErrorCode::EmptyKey),
    }
}
macro_rules! c13codes {
    ($name:ident, $lo:expr, $hi:expr) => {
        #[kani::proof]
        #[kani::unwind(6)]
        #[kani::stub(std::fmt::format, stub_format)]
        #[kani::stub(std::mem::MaybeUninit::write, stub_mu_write)]
        #[kani::stub(::miette::eyreish::capture_handler, stub_capture_handler)]
        fn $name() {
            let n: u8 = kani::any();
            kani::assume(n >= $lo && n <= $hi);
            let (e, want) = c13_code_of(n);
            let got = ErrorCode::from(&e);
            core::mem::forget(e);
            assert!(got == want, "C13: an Err message carries the error code of its reason (ErrorCode::from maps every error to the code named after it)");
            kani::cover!(n == $hi);
        }
    };
}
// @h props=C13 tier=quick cap=600 desc="ErrorCode::from(&WorterbuchError): reasons 0..10 (wildcards, NoSuchValue, NotSubscribed, ... Unauthorized) map to the code named after them" bounds="11 variants, chosen by the solver"
c13codes!(c13_error_codes_a, 0, 10);
// @h props=C13 tier=quick cap=600 desc="ErrorCode::from(&WorterbuchError): reasons 11..20 (NoPubStream ... FeatureDisabled, ClientIdCollision, EmptyKey) map to the code named after them" bounds="10 variants, chosen by the solver"
c13codes!(c13_error_codes_b, 11, 20);
