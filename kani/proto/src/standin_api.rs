// Stand-in for server::CloneableWbApi: a nondeterministic core. Same method names and result types as the
// `WbApi` implementation of the real one (inherent methods: they take precedence over the trait import of the
// included files). `fail == 0`: every call answers Ok with a canned result; otherwise the error variant
// number `fail` (menu below = the errors the real core can answer a request with). Every call is recorded.
use tokio::sync::{mpsc, oneshot};
use worterbuch_common::{
    CasVersion, ClientId, GraveGoods, Key, KeyValuePair, KeyValuePairs, LastWill, PStateEvent, ProtocolMajorVersion, RegularKeySegment,
    StateEvent, SubscriptionId, Value,
    error::{WorterbuchError, WorterbuchResult},
};

pub struct Script {
    pub fail: u8,
    pub calls: usize,
    pub last_method: u8,
    pub last_client: Option<ClientId>,
    /// sender half of the confirmation channel handed out by the last acquire_lock (the harness decides later
    /// whether the lock is granted - send - or the request is cancelled - drop)
    pub lock_tx: Option<oneshot::Sender<()>>,
}
#[derive(Clone)]
pub struct CloneableWbApi {
    pub config: Config,
    pub script: *mut Script,
}
unsafe impl Send for CloneableWbApi {}
unsafe impl Sync for CloneableWbApi {}

pub const M_GET: u8 = 1;
pub const M_CGET: u8 = 2;
pub const M_PGET: u8 = 3;
pub const M_SET: u8 = 4;
pub const M_CSET: u8 = 5;
pub const M_LOCK: u8 = 6;
pub const M_ACQUIRE: u8 = 7;
pub const M_RELEASE: u8 = 8;
pub const M_SPUB_INIT: u8 = 9;
pub const M_SPUB: u8 = 10;
pub const M_PUBLISH: u8 = 11;
pub const M_LS: u8 = 12;
pub const M_PLS: u8 = 13;
pub const M_SUBSCRIBE: u8 = 14;
pub const M_PSUBSCRIBE: u8 = 15;
pub const M_SUBSCRIBE_LS: u8 = 16;
pub const M_UNSUBSCRIBE: u8 = 17;
pub const M_UNSUBSCRIBE_LS: u8 = 18;
pub const M_DELETE: u8 = 19;
pub const M_PDELETE: u8 = 20;

pub const N_ERRORS: u8 = 8;
pub fn error_of(n: u8) -> WorterbuchError {
    match n {
        1 => WorterbuchError::NoSuchValue("k".to_owned()),
        2 => WorterbuchError::ReadOnlyKey("k".to_owned()),
        3 => WorterbuchError::Cas,
        4 => WorterbuchError::CasVersionMismatch,
        5 => WorterbuchError::IllegalMultiWildcard("p".to_owned()),
        6 => WorterbuchError::KeyIsLocked("k".to_owned()),
        7 => WorterbuchError::NotSubscribed,
        _ => WorterbuchError::NotLeader,
    }
}

impl CloneableWbApi {
    pub fn scripted(fail: u8) -> (CloneableWbApi, *mut Script) {
        let script = Box::into_raw(Box::new(Script { fail, calls: 0, last_method: 0, last_client: None, lock_tx: None }));
        (CloneableWbApi { config: Config { auth_token_key: None, channel_buffer_size: 4 }, script }, script)
    }
    fn answer<T>(&self, method: u8, client: Option<ClientId>, ok: T) -> WorterbuchResult<T> {
        let s = unsafe { &mut *self.script };
        s.calls += 1;
        s.last_method = method;
        s.last_client = client;
        if s.fail == 0 {
            Ok(ok)
        } else {
            core::mem::forget(ok);
            Err(error_of(s.fail))
        }
    }
    pub fn config(&self) -> &Config {
        &self.config
    }
    pub fn get(&self, _key: Key) -> crate::R<WorterbuchResult<Value>> {
        crate::ret(self.answer(M_GET, None, Value::Bool(true)))
    }
    pub fn cget(&self, _key: Key) -> crate::R<WorterbuchResult<(Value, CasVersion)>> {
        crate::ret(self.answer(M_CGET, None, (Value::Bool(true), 7)))
    }
    pub fn pget(&self, _pattern: String) -> crate::R<WorterbuchResult<KeyValuePairs>> {
        crate::ret(self.answer(M_PGET, None, Vec::new()))
    }
    pub fn set(&self, _key: Key, _value: Value, client_id: ClientId) -> crate::R<WorterbuchResult<()>> {
        crate::ret(self.answer(M_SET, Some(client_id), ()))
    }
    pub fn cset(&self, _key: Key, _value: Value, _version: CasVersion, client_id: ClientId) -> crate::R<WorterbuchResult<()>> {
        crate::ret(self.answer(M_CSET, Some(client_id), ()))
    }
    pub fn lock(&self, _key: Key, client_id: ClientId) -> crate::R<WorterbuchResult<()>> {
        crate::ret(self.answer(M_LOCK, Some(client_id), ()))
    }
    pub fn acquire_lock(&self, _key: Key, client_id: ClientId) -> crate::R<WorterbuchResult<oneshot::Receiver<()>>> {
        let (tx, rx) = oneshot::channel();
        unsafe { core::ptr::write(&mut (*self.script).lock_tx, Some(tx)) };
        crate::ret(self.answer(M_ACQUIRE, Some(client_id), rx))
    }
    pub fn release_lock(&self, _key: Key, client_id: ClientId) -> crate::R<WorterbuchResult<()>> {
        crate::ret(self.answer(M_RELEASE, Some(client_id), ()))
    }
    pub fn spub_init(&self, _tid: u64, _key: Key, client_id: ClientId) -> crate::R<WorterbuchResult<()>> {
        crate::ret(self.answer(M_SPUB_INIT, Some(client_id), ()))
    }
    pub fn spub(&self, _tid: u64, _value: Value, client_id: ClientId) -> crate::R<WorterbuchResult<()>> {
        crate::ret(self.answer(M_SPUB, Some(client_id), ()))
    }
    pub fn publish(&self, _key: Key, _value: Value) -> crate::R<WorterbuchResult<()>> {
        crate::ret(self.answer(M_PUBLISH, None, ()))
    }
    pub fn ls(&self, _parent: Option<Key>) -> crate::R<WorterbuchResult<Vec<RegularKeySegment>>> {
        crate::ret(self.answer(M_LS, None, Vec::new()))
    }
    pub fn pls(&self, _parent: Option<String>) -> crate::R<WorterbuchResult<Vec<RegularKeySegment>>> {
        crate::ret(self.answer(M_PLS, None, Vec::new()))
    }
    pub fn subscribe(&self, client_id: ClientId, tid: u64, _key: Key, _unique: bool, _live_only: bool) -> crate::R<WorterbuchResult<(mpsc::Receiver<StateEvent>, SubscriptionId)>> {
        let (tx, rx) = mpsc::channel(4);
        core::mem::forget(tx);
        crate::ret(self.answer(M_SUBSCRIBE, Some(client_id), (rx, SubscriptionId::new(client_id, tid))))
    }
    pub fn psubscribe(&self, client_id: ClientId, tid: u64, _pattern: String, _unique: bool, _live_only: bool) -> crate::R<WorterbuchResult<(mpsc::Receiver<PStateEvent>, SubscriptionId)>> {
        let (tx, rx) = mpsc::channel(4);
        core::mem::forget(tx);
        crate::ret(self.answer(M_PSUBSCRIBE, Some(client_id), (rx, SubscriptionId::new(client_id, tid))))
    }
    pub fn subscribe_ls(&self, client_id: ClientId, tid: u64, _parent: Option<Key>) -> crate::R<WorterbuchResult<(mpsc::Receiver<Vec<RegularKeySegment>>, SubscriptionId)>> {
        let (tx, rx) = mpsc::channel(4);
        core::mem::forget(tx);
        crate::ret(self.answer(M_SUBSCRIBE_LS, Some(client_id), (rx, SubscriptionId::new(client_id, tid))))
    }
    pub fn unsubscribe(&self, client_id: ClientId, _tid: u64) -> crate::R<WorterbuchResult<()>> {
        crate::ret(self.answer(M_UNSUBSCRIBE, Some(client_id), ()))
    }
    pub fn unsubscribe_ls(&self, client_id: ClientId, _tid: u64) -> crate::R<WorterbuchResult<()>> {
        crate::ret(self.answer(M_UNSUBSCRIBE_LS, Some(client_id), ()))
    }
    pub fn delete(&self, _key: Key, client_id: ClientId) -> crate::R<WorterbuchResult<Value>> {
        crate::ret(self.answer(M_DELETE, Some(client_id), Value::Bool(false)))
    }
    pub fn pdelete(&self, _pattern: String, client_id: ClientId) -> crate::R<WorterbuchResult<KeyValuePairs>> {
        crate::ret(self.answer(M_PDELETE, Some(client_id), Vec::new()))
    }
    pub fn protocol_switched(&self, _client_id: ClientId, _p: ProtocolMajorVersion) -> crate::R<WorterbuchResult<()>> {
        crate::ret(Ok(()))
    }
}
