//! Harness crate "proto" (C13, C15 call sites): the protocol handlers v0.rs / v1.rs (whole, de-sugared) and the
//! `Proto` dispatcher (sliced from protocol/mod.rs), auth.rs, against a NONDETERMINISTIC core: the stand-in
//! `CloneableWbApi` answers every call with Ok(some result) or with one of the errors the real core can produce,
//! as chosen by the harness, and records the call. Decoding of the request line (serde_json text) is outside.
#![allow(dead_code, unused_imports, unused_variables, unused_mut, clippy::all)]

use tokio::Now as _;
macro_rules! model_prelude {
    () => {
        use tokio::Now as _;
    };
}
macro_rules! psrc {
    ("v0.rs") => { include!("/verif/kani/proto/gen/v0.rs"); };
    ("v1.rs") => { include!("/verif/kani/proto/gen/v1.rs"); };
    ("proto_items.rs") => { include!("/verif/kani/proto/gen/proto_items.rs"); };
    ("subinfo.rs") => { include!("/verif/kani/proto/gen/subinfo.rs"); };
}
/// result of a stand-in core call: the value itself in the de-sugared build, a ready future in the native replay
pub type R<T> = T;
pub fn ret<T>(t: T) -> T {
    t
}
macro_rules! aw {
    ($e:expr) => { $e };
}
/// number of tasks spawned so far (observable in the model only)
pub fn tasks_spawned() -> Option<usize> {
    Some(tokio::model_tasks::spawned())
}
/// let every spawned task run to completion
pub fn run_tasks() {
    while tokio::model_tasks::run_next() {}
}
include!("/verif/kani/proto/src/body.rs");

#[cfg(kani)]
#[kani::proof]
fn zz_nothing() {
    let x: u64 = kani::any();
    assert!(x == x);
}
