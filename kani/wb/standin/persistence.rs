// Stand-in for worterbuch/src/persistence/mod.rs: only the `Noop` back end (the core is checked with
// persistence switched off; the JSON back end has its own harness crate). Same method names and
// signatures as the real `PersistentStorageImpl`.
pub mod error {
    use thiserror::Error;
    #[derive(Debug, Error)]
    pub enum PersistenceError {
        #[error("Store is locked")]
        StoreLocked,
        // (a payload, so that the type is not zero-sized: Kani 0.68 ICEs on Box<ZST> in io::Error::other)
        #[error("I/O error {0}")]
        Io(u32),
    }
    pub type PersistenceResult<T> = Result<T, PersistenceError>;
}
use crate::worterbuch::Worterbuch;
use error::PersistenceResult;
use worterbuch_common::{ClientId, Key, ValueEntry};

#[derive(Default)]
pub enum PersistentStorageImpl {
    #[default]
    Noop,
}

impl PersistentStorageImpl {
    pub async fn update_value(&self, _key: &Key, _value: &ValueEntry, _client_id: Option<ClientId>) -> PersistenceResult<()> {
        Ok(())
    }
    pub async fn delete_value(&self, _key: &Key) -> PersistenceResult<()> {
        Ok(())
    }
    pub async fn flush(&mut self, _worterbuch: &mut Worterbuch) -> PersistenceResult<()> {
        Ok(())
    }
    pub async fn clear(&self) -> PersistenceResult<()> {
        Ok(())
    }
    pub async fn remove_grave_goods_and_last_will(&self, _client_id: ClientId) -> PersistenceResult<()> {
        Ok(())
    }
}
