// Stand-in for worterbuch/src/config.rs: the fields the included files read.
#[derive(Clone, Debug)]
pub struct Config {
    pub channel_buffer_size: usize,
    pub extended_monitoring: bool,
}
impl Config {
    /// (used by the repo's own unit test in worterbuch.rs)
    pub async fn new(_prefix: Option<&str>) -> Result<Config, std::convert::Infallible> {
        Ok(Config { channel_buffer_size: 1000, extended_monitoring: false })
    }
}
