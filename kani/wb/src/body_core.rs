// Core modules shared by the harness crates wb and sync (and their replay crates): stand-ins + the included
// worterbuch sources. Each crate defines `src!`, `model_prelude!` and `wb_harnesses!` before including this file.
pub use worterbuch_common::INTERNAL_CLIENT_ID;

/// stand-in for worterbuch/src/config.rs (see /verif/kani/wb/standin/config.rs)
pub mod config {
    model_prelude!();
    src!("config.rs");
}
/// stand-in for worterbuch/src/mem_tools.rs (malloc_trim scheduling is not the subject of any property)
pub mod mem_tools {
    pub fn schedule_trim() {}
}
pub mod persistence {
    model_prelude!();
    src!("persistence.rs");
}
pub mod subscribers {
    model_prelude!();
    src!("subscribers.rs");
}
pub mod store {
    model_prelude!();
    src!("store.rs");

    /// harness helpers that need the private fields of `Store` / `Node` (shared with the core crate)
    #[cfg(any(kani, feature = "vreplay"))]
    pub(crate) mod h {
        include!("/verif/kani/core/src/h/util.rs");
        include!("/verif/kani/core/src/h/c01.rs");
        pub(crate) fn store_of(data: StoreNode, len: usize) -> Store {
            Store { data, len, ..Default::default() }
        }
        pub(crate) fn store_is_clean(store: &Store) -> bool {
            store.data.is_empty() || store.data.is_clean()
        }
    }
}
pub mod worterbuch {
    model_prelude!();
    src!("worterbuch.rs");

    #[cfg(any(kani, feature = "vreplay"))]
    pub(crate) mod h {
        include!("/verif/kani/wb/src/h/util.rs");
        wb_harnesses!();
    }
}

