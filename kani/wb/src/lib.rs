//! Harness crate "wb": store.rs, subscribers.rs and worterbuch.rs of /repo (current working tree, after
//! the lexical async/.await de-sugaring of /verif/gen/deasync.py) against the environment models, with
//! stand-ins for config / persistence (Noop) / mem_tools.
#![allow(dead_code, unused_imports, unused_variables, unused_mut, clippy::all)]

macro_rules! src {
    ("store.rs") => { include!("/verif/kani/wb/gen/store.rs"); };
    ("subscribers.rs") => { include!("/verif/kani/wb/gen/subscribers.rs"); };
    ("worterbuch.rs") => { include!("/verif/kani/wb/gen/worterbuch.rs"); };
    ("config.rs") => { include!("/verif/kani/wb/gen/config.rs"); };
    ("persistence.rs") => { include!("/verif/kani/wb/gen/persistence.rs"); };
}
macro_rules! model_prelude {
    () => { use tokio::Now as _; };
}
/// `topic!` without core::fmt (see /verif/gen/deasync.py): the pieces are concatenated with '/' exactly as
/// worterbuch_common::topic! does, each piece rendered as its `Display` would render it.
macro_rules! vtopic {
    ($first:expr $(, $rest:expr)*) => {{
        let mut s = String::new();
        $crate::topic_model::TopicPiece::push_to(&$first, &mut s);
        $(
            s.push('/');
            $crate::topic_model::TopicPiece::push_to(&$rest, &mut s);
        )*
        s
    }};
}
pub mod topic_model {
    use worterbuch_common::{ClientId, KeySegment};
    pub trait TopicPiece {
        fn push_to(&self, s: &mut String);
    }
    impl<T: TopicPiece + ?Sized> TopicPiece for &T {
        fn push_to(&self, s: &mut String) {
            (**self).push_to(s)
        }
    }
    impl TopicPiece for str {
        fn push_to(&self, s: &mut String) {
            s.push_str(self)
        }
    }
    impl TopicPiece for String {
        fn push_to(&self, s: &mut String) {
            s.push_str(self)
        }
    }
    impl TopicPiece for KeySegment {
        fn push_to(&self, s: &mut String) {
            s.push_str(self.as_ref())
        }
    }
    /// `Display` of a Uuid: lower-case hex, hyphenated 8-4-4-4-12
    impl TopicPiece for ClientId {
        fn push_to(&self, s: &mut String) {
            const HEX: &[u8; 16] = b"0123456789abcdef";
            let b = self.as_bytes();
            // (unrolled: a 16-iteration loop would need its own unwinding bound in every harness)
            macro_rules! hx {
                ($i:expr) => {
                    s.push(HEX[(b[$i] >> 4) as usize] as char);
                    s.push(HEX[(b[$i] & 0xf) as usize] as char);
                };
            }
            hx!(0); hx!(1); hx!(2); hx!(3);
            s.push('-');
            hx!(4); hx!(5);
            s.push('-');
            hx!(6); hx!(7);
            s.push('-');
            hx!(8); hx!(9);
            s.push('-');
            hx!(10); hx!(11); hx!(12); hx!(13); hx!(14); hx!(15);
        }
    }
}
macro_rules! aw {
    ($e:expr) => { $e };
}
/// the harness files of this crate (inside `worterbuch::h`, next to the private items of worterbuch.rs)
macro_rules! wb_harnesses {
    () => {
        include!("/verif/kani/wb/src/h/c03.rs");
        include!("/verif/kani/wb/src/h/c08.rs");
        include!("/verif/kani/wb/src/h/c07.rs");
        include!("/verif/kani/wb/src/h/c16.rs");
        include!("/verif/kani/wb/src/h/probe.rs");
    };
}
include!("/verif/kani/wb/src/body.rs");
