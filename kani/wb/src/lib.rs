//! Harness crate "wb": store.rs, subscribers.rs and worterbuch.rs of /repo (current working tree, after
//! the lexical async/.await de-sugaring of /verif/gen/deasync.py) against the environment models, with
//! stand-ins for config / persistence (Noop) / mem_tools.
#![allow(dead_code, unused_imports, unused_variables, unused_mut, clippy::all)]

macro_rules! src {
    ("store.rs") => { include!("/verif/kani/wb/gen/store.rs"); };
    ("subscribers.rs") => { include!("/verif/kani/wb/gen/subscribers.rs"); };
    ("worterbuch.rs") => { include!("/verif/kani/wb/gen/worterbuch.rs"); };
    ("config.rs") => { include!("/verif/kani/wb/gen/config.rs"); };
    ("persistence.rs") => { include!("/verif/kani/wb/gen/persistence.rs"); };
}
macro_rules! model_prelude {
    () => { use tokio::Now as _; };
}
macro_rules! aw {
    ($e:expr) => { $e };
}
include!("/verif/kani/wb/src/body.rs");
