// @module worterbuch::h
// C08  Clients cannot alter or fake the server's $SYS information.
//
// (a) the guard `check_for_read_only_key` as a pure function over a generated menu of keys / patterns:
//     guard Ok for an ordinary client  =>  no key that the pattern can match lies under $SYS outside the
//     client's own graveGoods / lastWill / clientName entries  (only this direction: a stricter guard is fine);
// (b) call sites: a sentinel `$SYS/s` planted by the server and a subscriber of it; one client request of every
//     mutating kind with a key / pattern from the menu; afterwards sentinel and subscriber queue are unchanged.
const C1: &str = "00000000-0000-0000-0000-000000000001";

macro_rules! c08h {
    ($name:ident, $body:expr) => {
        #[kani::proof]
        #[kani::unwind(6)]
        #[kani::stub(std::mem::MaybeUninit::write, stub_mu_write)]
        #[kani::stub(std::fmt::format, stub_format)]
        #[kani::stub(miette::eyreish::capture_handler, stub_capture_handler)]
        #[kani::stub(core::slice::memchr::memchr, stub_memchr)]
        fn $name() {
            $body
        }
    };
}

fn must_reject(key: &str) {
    let r = check_for_read_only_key(key, cid(1));
    assert!(r.is_err(), "C08: the guard refuses an ordinary client every key/pattern that reaches protected $SYS entries");
    core::mem::forget(r);
    let ri = check_for_read_only_key(key, INTERNAL_CLIENT_ID);
    assert!(ri.is_ok(), "C08: the server itself (internal client) may write everywhere");
    core::mem::forget(ri);
}
fn must_reject_kf(key: &str) {
    let r = check_for_read_only_key(key, cid(1));
    assert!(r.is_err(), "[KF-C08-leading-wildcard] C08: a pattern whose first segment is a wildcard matches keys under $SYS but passes the guard");
    core::mem::forget(r);
}

// @h props=C08,C17 tier=quick cap=600 autounwind=80 desc="guard refuses $SYS, $SYS/x, $SYS/#, $SYS/?, $SYS/clients, $SYS/clients/# and the empty key for an ordinary client" bounds="keys of <= 3 segments; clients c1, internal"
c08h!(c08_guard_sys_short, {
    must_reject("$SYS");
    must_reject("$SYS/x");
    must_reject("$SYS/#");
    must_reject("$SYS/?");
    must_reject("$SYS/clients");
    must_reject("$SYS/clients/#");
    must_reject("$SYS/clients/?");
    let e = check_for_read_only_key("", cid(1));
    assert!(e.is_err(), "C08: the empty key is refused");
    core::mem::forget(e);
    kani::cover!(true);
});
// @h props=C08,C17 tier=quick cap=900 autounwind=80 desc="guard refuses the client's own $SYS/clients/<id> node, its wildcard children and entries other than graveGoods / lastWill / clientName" bounds="keys of 3-4 segments with a 36 char client id"
c08h!(c08_guard_own_node, {
    must_reject("$SYS/clients/00000000-0000-0000-0000-000000000001");
    must_reject("$SYS/clients/00000000-0000-0000-0000-000000000001/#");
    must_reject("$SYS/clients/00000000-0000-0000-0000-000000000001/?");
    must_reject("$SYS/clients/00000000-0000-0000-0000-000000000001/protocol");
    kani::cover!(true);
});
// @h props=C08,C17 tier=quick cap=900 autounwind=80 desc="guard refuses another client's graveGoods / lastWill / clientName and wildcard client ids" bounds="keys of 4 segments with a 36 char client id"
c08h!(c08_guard_other_client, {
    must_reject("$SYS/clients/00000000-0000-0000-0000-000000000002/lastWill");
    must_reject("$SYS/clients/00000000-0000-0000-0000-000000000002/graveGoods");
    must_reject("$SYS/clients/00000000-0000-0000-0000-000000000002/clientName");
    must_reject("$SYS/clients/?/lastWill");
    must_reject("$SYS/clients/#/lastWill");
    kani::cover!(true);
});
// @h props=C08 tier=quick cap=900 autounwind=80 desc="the client's own graveGoods / lastWill / clientName are writable (reachability witness of the accepting branch)" bounds="3 keys"
c08h!(c08_guard_own_entries, {
    let a = check_for_read_only_key("$SYS/clients/00000000-0000-0000-0000-000000000001/lastWill", cid(1));
    let b = check_for_read_only_key("$SYS/clients/00000000-0000-0000-0000-000000000001/graveGoods", cid(1));
    let c = check_for_read_only_key("$SYS/clients/00000000-0000-0000-0000-000000000001/clientName", cid(1));
    // (not a requirement of C08 - a stricter guard would still satisfy it - hence cover, not assert)
    kani::cover!(a.is_ok() && b.is_ok() && c.is_ok());
    core::mem::forget(a);
    core::mem::forget(b);
    core::mem::forget(c);
});
// @h props=C08 tier=quick cap=600 autounwind=80 desc="patterns whose FIRST segment is a wildcard (#, ?, ?/x, ?/#) match keys under $SYS: the guard must refuse them" bounds="4 patterns"
c08h!(c08_guard_leading_wildcard, {
    must_reject_kf("#");
    must_reject_kf("?");
    must_reject_kf("?/x");
    must_reject_kf("?/#");
});

// ---------------------------------------------------------------- call sites
const SET: u8 = 0;
const CSET: u8 = 1;
const DELETE: u8 = 2;
const PDELETE: u8 = 3;
const PUBLISH: u8 = 4;
const SPUB: u8 = 5;

/// store {$SYS/s: sentinel(true)} + user key x; a server-side subscriber of $SYS/s; one request by client c1.
fn c08_site(kind: u8, key: &str, kf: bool) {
    use crate::store::h::{n0, n1, n2, store_of};
    let mut wb = Worterbuch::with_config(cfg());
    wb.store = store_of(
        n2(None, "$SYS", n1(None, "s", n0(Some(ValueEntry::Plain(Value::Bool(true))))), "x", n0(Some(ValueEntry::Plain(Value::Bool(false))))),
        2,
    );
    let r = aw!(wb.subscribe(INTERNAL_CLIENT_ID, 1, s("$SYS/s"), false, true));
    let mut rx = match r {
        Ok(x) => x.0,
        Err(_) => {
            assert!(false, "C08: the server can subscribe to $SYS/s");
            return;
        }
    };
    let nb: bool = kani::any();
    if kind == SET {
        let w = aw!(wb.set(s(key), Value::Bool(nb), cid(1), false));
        core::mem::forget(w);
    } else if kind == CSET {
        let v: u64 = kani::any();
        let w = aw!(wb.cset(s(key), Value::Bool(nb), v, cid(1), false));
        core::mem::forget(w);
    } else if kind == DELETE {
        let w = aw!(wb.delete(s(key), cid(1)));
        core::mem::forget(w);
    } else if kind == PDELETE {
        let w = aw!(wb.pdelete(s(key), cid(1)));
        core::mem::forget(w);
    } else if kind == PUBLISH {
        let w = aw!(wb.publish(s(key), Value::Bool(nb)));
        core::mem::forget(w);
    } else {
        let w = aw!(wb.spub_init(7, s(key), cid(1)));
        let ok = w.is_ok();
        core::mem::forget(w);
        if ok {
            let w2 = aw!(wb.spub(7, Value::Bool(nb), cid(1)));
            core::mem::forget(w2);
        }
    }
    let g = wb.get(&s("$SYS/s"));
    let intact = matches!(&g, Ok(v) if v.as_bool() == Some(true));
    core::mem::forget(g);
    let quiet = rx.try_recv().is_err();
    if kf && kind == PDELETE {
        assert!(intact && quiet, "[KF-C08-leading-wildcard] C08: pdelete with a leading wildcard by an ordinary client deletes server entries under $SYS");
    } else if kf {
        assert!(intact, "C08: the sentinel under $SYS is unchanged");
        assert!(quiet, "[KF-C08-publish-unguarded] C08: publish / spub on a protected $SYS key makes its subscribers see a value the server did not set");
    } else {
        assert!(intact, "C08: the sentinel under $SYS is unchanged by a client request");
        assert!(quiet, "C08: a subscriber of the protected key sees no client-made event");
    }
    kani::cover!(true);
    core::mem::forget(wb);
}
// @h props=C08,C17 tier=quick cap=900 autounwind=40 desc="set $SYS/s by an ordinary client: refused, sentinel and its subscriber untouched" bounds="sentinel $SYS/s; value Bool"
c08h!(c08_site_set, c08_site(SET, "$SYS/s", false));
// @h props=C08,C17 tier=quick cap=900 autounwind=40 desc="cset $SYS/s (any version) by an ordinary client: refused" bounds="version u64"
c08h!(c08_site_cset, c08_site(CSET, "$SYS/s", false));
// @h props=C08,C17 tier=quick cap=900 autounwind=40 desc="delete $SYS/s by an ordinary client: refused" bounds=""
c08h!(c08_site_delete, c08_site(DELETE, "$SYS/s", false));
// @h props=C08,C17 tier=quick cap=900 autounwind=40 desc="pdelete $SYS/# by an ordinary client: refused" bounds=""
c08h!(c08_site_pdelete_sys_hash, c08_site(PDELETE, "$SYS/#", false));
// @h props=C08,C17 tier=quick cap=900 autounwind=40 desc="pdelete $SYS/? by an ordinary client: refused" bounds=""
c08h!(c08_site_pdelete_sys_q, c08_site(PDELETE, "$SYS/?", false));
// @h props=C08,C17 tier=quick cap=900 autounwind=40 desc="spub_init + spub on $SYS/s by an ordinary client: stream refused, no event" bounds=""
c08h!(c08_site_spub, c08_site(SPUB, "$SYS/s", false));
// @h props=C08 tier=quick cap=900 autounwind=40 desc="pdelete # by an ordinary client must not remove the sentinel under $SYS" bounds=""
c08h!(c08_site_pdelete_hash, c08_site(PDELETE, "#", true));
// @h props=C08 tier=quick cap=900 autounwind=40 desc="pdelete ?/s by an ordinary client must not remove the sentinel under $SYS" bounds=""
c08h!(c08_site_pdelete_q_s, c08_site(PDELETE, "?/s", true));
// @h props=C08 tier=quick cap=900 autounwind=40 desc="publish $SYS/s by a client must not reach the subscriber of the protected key" bounds=""
c08h!(c08_site_publish, c08_site(PUBLISH, "$SYS/s", true));
