// @module worterbuch::h
// C07  Session end buries grave goods, publishes the last will, cleans up, nothing else.
//
// Real code: Worterbuch::disconnected and everything it calls (unlock_all, grave_goods_for_client,
// last_will_for_client, do_unsubscribe, internal_pdelete, set, notify_subscribers, serde `from_value` of the
// registrations through the model Value). Registrations are ordinary values in the store under
// $SYS/clients/<id>/{graveGoods,lastWill}.
const ID1: &str = "00000000-0000-0000-0000-000000000001";
const ID2: &str = "00000000-0000-0000-0000-000000000002";

macro_rules! c07h {
    ($name:ident, $body:expr) => {
        #[kani::proof]
        #[kani::unwind(6)]
        #[kani::stub(std::mem::MaybeUninit::write, stub_mu_write)]
        #[kani::stub(std::fmt::format, stub_format)]
        #[kani::stub(miette::eyreish::capture_handler, stub_capture_handler)]
        #[kani::stub(core::slice::memchr::memchr, stub_memchr)]
        #[kani::stub(std::result::Result::ok, stub_result_ok)]
        fn $name() {
            $body
        }
    };
}

fn plain(v: Value) -> Option<ValueEntry> {
    Some(ValueEntry::Plain(v))
}
fn gg(pattern: &str) -> Value {
    Value::Array(vec![Value::String(s(pattern))])
}
fn lw(key: &str, b: bool) -> Value {
    Value::Array(vec![vobj2("key", Value::String(s(key)), "value", Value::Bool(b))])
}

/// victim c1 with grave goods `ggp` and last will {a/y: wb}; bystander c2 with its own last will and a
/// subscription to a/#; user keys a/x (plain) and a/y (`y_cas`: CAS protected or plain).
fn c07_scenario(ggp: &str, gg_hits_x: bool, y_cas: bool) {
    c07_scenario_v(ggp, gg_hits_x, y_cas, kani::any(), kani::any(), kani::any(), kani::any())
}
fn c07_scenario_v(ggp: &str, gg_hits_x: bool, y_cas: bool, xb: bool, yb: bool, yv: u64, will: bool) {
    use crate::store::h::{n0, n1, n2, store_of};
    let y_entry = if y_cas { ValueEntry::Cas(Value::Bool(yb), yv) } else { ValueEntry::Plain(Value::Bool(yb)) };
    let c1 = n2(None, "graveGoods", n0(plain(gg(ggp))), "lastWill", n0(plain(lw("a/y", will))));
    let c2 = n1(None, "lastWill", n0(plain(lw("a/x", true))));
    let data = n2(
        None,
        "$SYS",
        n1(None, "clients", n2(plain(vnum(2)), ID1, c1, ID2, c2)),
        "a",
        n2(None, "x", n0(plain(Value::Bool(xb))), "y", n0(Some(y_entry))),
    );
    let mut wb = Worterbuch::with_config(cfg());
    wb.store = store_of(data, 6);
    wb.clients = HashMap::from_slots([Some((cid(1), ClientInfo::new())), Some((cid(2), ClientInfo::new()))]);
    // the bystander watches a/#
    let r = aw!(wb.psubscribe(cid(2), 9, s("a/#"), false, true));
    let mut rx = match r {
        Ok(x) => x.0,
        Err(_) => {
            assert!(false, "C07: bystander subscription accepted");
            return;
        }
    };
    // ---- the victim's session ends
    let d = aw!(wb.disconnected(cid(1), None));
    assert!(d.is_ok(), "C07: session end is processed");
    core::mem::forget(d);
    // 1. grave goods buried
    let gx = wb.get(&s("a/x"));
    if gg_hits_x {
        assert!(gx.is_err(), "C07: every key matching the grave goods is deleted");
    } else {
        assert!(matches!(&gx, Ok(v) if v.as_bool() == Some(xb)), "C07: keys the grave goods do not match are untouched");
    }
    core::mem::forget(gx);
    // 2. last will published, overriding CAS protection
    let gy = wb.get(&s("a/y"));
    assert!(matches!(&gy, Ok(v) if v.as_bool() == Some(will)), "C07: the last will is set (also over a CAS-protected value)");
    core::mem::forget(gy);
    // 3. the victim's own $SYS entries are gone
    // (results are always bound and forgotten: dropping a `WorterbuchResult` whose variant the engine cannot
    // fold runs the drop glue of every error variant - io::Error, Box<dyn Error>, miette - out of memory)
    let g1 = wb.get(&s("$SYS/clients/00000000-0000-0000-0000-000000000001/graveGoods"));
    assert!(g1.is_err(), "C07: the victim's grave goods registration is removed");
    core::mem::forget(g1);
    let g2 = wb.get(&s("$SYS/clients/00000000-0000-0000-0000-000000000001/lastWill"));
    assert!(g2.is_err(), "C07: the victim's last will registration is removed");
    core::mem::forget(g2);
    assert!(!wb.clients.contains_key(&cid(1)), "C07: the victim is no longer a connected client");
    // 4. nothing of the bystander is touched
    let l2 = wb.get(&s("$SYS/clients/00000000-0000-0000-0000-000000000002/lastWill"));
    assert!(l2.is_ok(), "C07: another client's last will registration is untouched");
    core::mem::forget(l2);
    assert!(wb.clients.contains_key(&cid(2)), "C07: other sessions stay connected");
    // 5. subscribers are notified as for ordinary deletes and sets: first the burial, then the will, once each
    if gg_hits_x {
        assert!(next_pstate(&mut rx, "a/x") == (DELETED, 1, true, Some(xb)), "C07: subscribers see the burial as a Deleted event");
    }
    let changed = y_cas || yb != will;
    let e2 = next_pstate(&mut rx, "a/y");
    assert!(e2 == (VALUE, 1, true, Some(will)), "C07: subscribers see the last will as a value event, after the burial");
    assert!(next_pstate(&mut rx, "").0 == NONE, "C07: each exactly once, nothing else");
    kani::cover!(true);
    core::mem::forget(wb);
}
// @h props=C07,C17 tier=quick cap=1800 mem=20 autounwind=80 desc="session end: grave goods a/x, last will a/y (plain), bystander with registrations and a subscription" bounds="2 clients; keys a/x, a/y; values Bool"
c07h!(c07_gg_key_will_plain, c07_scenario("a/x", true, false));
// @h props=C07,C17 tier=quick cap=1800 mem=20 autounwind=80 desc="session end: grave goods a/x, last will over a CAS-protected a/y (any version)" bounds="2 clients; version u64"
c07h!(c07_gg_key_will_over_cas, c07_scenario("a/x", true, true));
// @h props=C07,C17 tier=thorough cap=1800 mem=20 autounwind=80 desc="session end: grave goods pattern b/# matching nothing" bounds="2 clients"
c07h!(c07_gg_nomatch, c07_scenario("b/#", false, false));

/// victim c1 holds a subscription, a publish stream and the lock on `a`; bystander c2 waits for that lock and
/// has a subscription of its own. Session end of c1: its subscription / stream / lock are gone, the lock is
/// handed to c2 (confirmed once), c2's subscription still works.
// @h props=C07,C06,C03,C17 tier=quick cap=1800 mem=20 autounwind=80 desc="session end of a client that holds a subscription, a publish stream and a lock with a waiter: all removed, lock handed over, bystander's subscription intact" bounds="2 clients; key a"
c07h!(c07_cleanup_sub_spub_lock, {
    use crate::store::h::{n0, n1, store_of};
    use crate::store::h::n2;
    let ab: bool = kani::any();
    let mut wb = Worterbuch::with_config(cfg());
    // (the victim has registrations - matching nothing - because a *missing* registration sends the engine
    // down an infeasible but unfolded path that deserialises a garbage value: out of memory)
    let c1 = n2(None, "graveGoods", n0(plain(gg("zz"))), "lastWill", n0(plain(lw("a", false))));
    wb.store = store_of(n2(None, "$SYS", n1(None, "clients", n1(plain(vnum(2)), ID1, c1)), "a", n0(plain(Value::Bool(ab)))), 3);
    wb.clients = HashMap::from_slots([Some((cid(1), ClientInfo::new())), Some((cid(2), ClientInfo::new()))]);
    let r1 = aw!(wb.subscribe(cid(1), 1, s("a"), false, true));
    let r2 = aw!(wb.subscribe(cid(2), 2, s("a"), false, true));
    let (mut rx1, mut rx2) = match (r1, r2) {
        (Ok(a), Ok(b)) => (a.0, b.0),
        _ => {
            assert!(false, "C07: subscriptions accepted");
            return;
        }
    };
    let sp = aw!(wb.spub_init(5, s("a"), cid(1)));
    assert!(sp.is_ok(), "C07: publish stream accepted");
    core::mem::forget(sp);
    let l1 = aw!(wb.lock(s("a"), cid(1)));
    assert!(l1.is_ok(), "C06: lock on a free key");
    core::mem::forget(l1);
    let mut lrx = match aw!(wb.acquire_lock(s("a"), cid(2))) {
        Ok(rx) => rx,
        Err(_) => {
            assert!(false, "C06: acquire accepted");
            return;
        }
    };
    assert!(lrx.try_recv().is_err(), "C06: the waiter is not confirmed while c1 holds the lock");
    // ---- session end of c1
    let d = aw!(wb.disconnected(cid(1), None));
    assert!(d.is_ok(), "C07: session end is processed");
    core::mem::forget(d);
    assert!(lrx.try_recv() == Ok(()), "C07/C06: the lock dies with its session and is handed to the waiter, who is confirmed");
    let sp2 = aw!(wb.spub(5, Value::Bool(true), cid(1)));
    assert!(sp2.is_err(), "C07: the victim's publish streams are dropped");
    core::mem::forget(sp2);
    let nb: bool = kani::any();
    let w = aw!(wb.set(s("a"), Value::Bool(nb), cid(2), true));
    assert!(w.is_ok(), "C07: other clients keep working");
    core::mem::forget(w);
    assert!(next_state(&mut rx1).0 == NONE, "C07: no event for the ended session's subscription");
    assert!(next_state(&mut rx2) == (VALUE, Some(false)), "C07: the bystander sees the victim's last will (a = false)");
    assert!(next_state(&mut rx2) == (VALUE, Some(nb)), "C07: the bystander's subscription still delivers");
    assert!(next_state(&mut rx2).0 == NONE, "C07: exactly once");
    let u = aw!(wb.unsubscribe(cid(1), 1));
    assert!(u.is_err(), "C07: the victim's subscription no longer exists");
    core::mem::forget(u);
    kani::cover!(true);
    core::mem::forget(wb);
});

/// grave goods `#` registered by an ordinary client: burying them must not erase other clients' registrations
/// (same root cause as KF-C08-leading-wildcard).
// @h props=C07,C08 tier=quick cap=1800 mem=20 autounwind=80 desc="session end with grave goods '#': other clients' $SYS registrations must survive" bounds="2 clients"
c07h!(c07_gg_hash_spares_others, {
    use crate::store::h::{n0, n1, n2, store_of};
    let c1 = n2(None, "graveGoods", n0(plain(gg("#"))), "lastWill", n0(plain(lw("a/y", true))));
    let c2 = n1(None, "lastWill", n0(plain(lw("a/x", true))));
    let data = n2(None, "$SYS", n1(None, "clients", n2(plain(vnum(2)), ID1, c1, ID2, c2)), "a", n1(None, "x", n0(plain(Value::Bool(true)))));
    let mut wb = Worterbuch::with_config(cfg());
    wb.store = store_of(data, 5);
    wb.clients = HashMap::from_slots([Some((cid(1), ClientInfo::new())), Some((cid(2), ClientInfo::new()))]);
    let d = aw!(wb.disconnected(cid(1), None));
    assert!(d.is_ok(), "C07: session end is processed");
    core::mem::forget(d);
    let gx = wb.get(&s("a/x"));
    assert!(gx.is_err(), "C07: user keys matching the grave goods are deleted");
    core::mem::forget(gx);
    let l2 = wb.get(&s("$SYS/clients/00000000-0000-0000-0000-000000000002/lastWill"));
    assert!(l2.is_ok(), "[KF-C08-leading-wildcard] C07: grave goods with a leading wildcard erase other clients' registrations under $SYS");
    core::mem::forget(l2);
    kani::cover!(true);
    core::mem::forget(wb);
});

/// a last will that targets a protected $SYS key, and a grave goods registration that is not a list
// @h props=C07,C08,C17 tier=quick cap=1800 mem=20 autounwind=80 desc="session end: last will on the protected key $SYS/s is refused, malformed grave goods registration is ignored" bounds="1 client"
c07h!(c07_will_on_sys_refused, {
    use crate::store::h::{n0, n1, n2, store_of};
    let c1 = n2(None, "graveGoods", n0(plain(Value::Bool(true))), "lastWill", n0(plain(lw("$SYS/s", false))));
    let data = n2(None, "$SYS", n2(None, "clients", n1(plain(vnum(1)), ID1, c1), "s", n0(plain(Value::Bool(true)))), "a", n0(plain(Value::Bool(true))));
    let mut wb = Worterbuch::with_config(cfg());
    wb.store = store_of(data, 5);
    wb.clients = HashMap::from_slots([Some((cid(1), ClientInfo::new())), None]);
    let d = aw!(wb.disconnected(cid(1), None));
    assert!(d.is_ok(), "C07: session end is processed");
    core::mem::forget(d);
    let gs = wb.get(&s("$SYS/s"));
    assert!(matches!(&gs, Ok(v) if v.as_bool() == Some(true)), "C08: a last will cannot overwrite a protected $SYS value");
    core::mem::forget(gs);
    let ga = wb.get(&s("a"));
    assert!(matches!(&ga, Ok(v) if v.as_bool() == Some(true)), "C07: a malformed grave goods registration deletes nothing");
    core::mem::forget(ga);
    kani::cover!(true);
    core::mem::forget(wb);
});
