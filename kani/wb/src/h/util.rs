// @module worterbuch::h
use super::*;
#[cfg(not(kani))]
use crate::vreplay_support::FromSlots;

pub(crate) fn s(x: &str) -> String {
    x.to_owned()
}
pub(crate) fn cid(n: u128) -> ClientId {
    ClientId::from_u128(n)
}
pub(crate) fn stub_format(_args: core::fmt::Arguments<'_>) -> String {
    String::new()
}
pub(crate) fn stub_mu_write<T>(this: &mut core::mem::MaybeUninit<T>, val: T) -> &mut T {
    let p = this.as_mut_ptr();
    unsafe {
        p.write(val);
        &mut *p
    }
}
pub(crate) fn stub_result_ok<T, E>(r: Result<T, E>) -> Option<T> {
    match r {
        Ok(v) => Some(v),
        Err(e) => {
            core::mem::forget(e);
            None
        }
    }
}
pub(crate) fn cfg() -> Config {
    Config { channel_buffer_size: 4, extended_monitoring: false }
}

/// Stub for miette's private `capture_handler` (it boxes a zero-sized fn item, on which Kani 0.68 ICEs,
/// and would drag the whole report-formatting machinery in). Error *reports* are not the subject of any
/// property; the `Err` itself is still produced and propagated by the real code.
pub(crate) struct NullHandler;
impl miette::ReportHandler for NullHandler {
    fn debug(&self, _e: &dyn miette::Diagnostic, _f: &mut core::fmt::Formatter<'_>) -> core::fmt::Result {
        Ok(())
    }
}
pub(crate) fn stub_capture_handler(_error: &(dyn miette::Diagnostic + 'static)) -> Box<dyn miette::ReportHandler> {
    Box::new(NullHandler)
}

/// Stub for `core::slice::memchr::memchr`: the plain byte loop. The real one switches to an aligned
/// word-at-a-time search for haystacks of >= 16 bytes, whose prefix length depends on the numeric address of
/// the string - nondeterministic for CBMC, so `key.split('/')` on a long `$SYS/clients/<uuid>/...` key would
/// never fold. Same result for every input.
pub(crate) fn stub_memchr(x: u8, text: &[u8]) -> Option<usize> {
    let mut i = 0;
    while i < text.len() {
        if text[i] == x {
            return Some(i);
        }
        i += 1;
    }
    None
}

/// JSON values that the model builds with its constructor functions and the real serde_json with `json!`
#[cfg(kani)]
pub(crate) fn vnum(n: u64) -> Value {
    Value::Number(n)
}
#[cfg(not(kani))]
pub(crate) fn vnum(n: u64) -> Value {
    serde_json::json!(n)
}
#[cfg(kani)]
pub(crate) fn vobj2(k1: &str, v1: Value, k2: &str, v2: Value) -> Value {
    Value::Object(vec![(s(k1), v1), (s(k2), v2)])
}
#[cfg(not(kani))]
pub(crate) fn vobj2(k1: &str, v1: Value, k2: &str, v2: Value) -> Value {
    let mut m = serde_json::Map::new();
    m.insert(s(k1), v1);
    m.insert(s(k2), v2);
    Value::Object(m)
}
