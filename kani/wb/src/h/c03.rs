// @module worterbuch::h
// C03  A subscription delivers current state, then every matching change once, in order.
//
// Real code: Worterbuch::{subscribe, psubscribe, unsubscribe, set, cset, delete, pdelete, publish},
// notify_subscribers, Subscribers::*, Store::*. The subscriber's queue is the model mpsc channel (FIFO by
// construction - what is checked is what worterbuch pushes into it and in which order).
// Concrete per harness: store shape, kind of the stored entry, subscription flags (unique / live_only),
// request kind. Symbolic: stored values and versions, written value and version, transaction id.
use crate::store::h::{n0, n1, n2, store_of, E};

fn wb_with(data: StoreNode, len: usize) -> Worterbuch {
    let mut wb = Worterbuch::with_config(cfg());
    wb.store = store_of(data, len);
    wb
}

const NONE: u8 = 0;
const VALUE: u8 = 1;
const DELETED: u8 = 2;
/// next event in a key subscription's queue: (kind, bool payload)
fn next_state(rx: &mut Receiver<StateEvent>) -> (u8, Option<bool>) {
    match rx.try_recv() {
        Ok(StateEvent::Value(v)) => {
            let b = v.as_bool();
            core::mem::forget(v);
            (VALUE, b)
        }
        Ok(StateEvent::Deleted(v)) => {
            let b = v.as_bool();
            core::mem::forget(v);
            (DELETED, b)
        }
        Err(_) => (NONE, None),
    }
}
/// next event in a pattern subscription's queue, which must carry at most one key/value pair here:
/// (kind, number of pairs, key of the first pair is `key`, bool payload of the first pair)
fn next_pstate(rx: &mut Receiver<PStateEvent>, key: &str) -> (u8, usize, bool, Option<bool>) {
    match rx.try_recv() {
        Ok(PStateEvent::KeyValuePairs(kvs)) => {
            let r = (VALUE, kvs.len(), kvs.len() > 0 && kvs[0].key == key, if kvs.len() > 0 { kvs[0].value.as_bool() } else { None });
            core::mem::forget(kvs);
            r
        }
        Ok(PStateEvent::Deleted(kvs)) => {
            let r = (DELETED, kvs.len(), kvs.len() > 0 && kvs[0].key == key, if kvs.len() > 0 { kvs[0].value.as_bool() } else { None });
            core::mem::forget(kvs);
            r
        }
        Err(_) => (NONE, 0, false, None),
    }
}

/// subscribe to key `a` (stored: absent / plain / CAS), then one `set a` by another client.
fn c03_subscribe_then_set(kind: u8, unique: bool, live_only: bool) {
    c03_subscribe_then_set_v(kind, unique, live_only, None)
}
fn c03_subscribe_then_set_v(kind: u8, unique: bool, live_only: bool, fixed: Option<(bool, bool)>) {
    let mut e = E::any(kind == 2);
    if let Some((eb, _)) = fixed {
        e.b = eb;
    }
    let mut wb = if kind == 0 {
        wb_with(n1(None, "b", n0(Some(ValueEntry::Plain(Value::Bool(true))))), 1)
    } else {
        wb_with(n1(None, "a", n0(Some(e.entry()))), 1)
    };
    let tid: u64 = kani::any();
    let r = aw!(wb.subscribe(cid(1), tid, s("a"), unique, live_only));
    let (mut rx, id) = match r {
        Ok(x) => x,
        Err(_) => {
            assert!(false, "C03: subscribe to a literal key is accepted");
            return;
        }
    };
    assert!(id.client_id == cid(1) && id.transaction_id == tid, "C03: the subscription is identified by client and transaction id");
    // --- current state first (unless live-only), and only that
    let first = next_state(&mut rx);
    if kind != 0 && !live_only {
        assert!(first == (VALUE, Some(e.b)), "C03: a subscription starts with the current value");
        assert!(next_state(&mut rx).0 == NONE, "C03: ... exactly once");
    } else {
        assert!(first.0 == NONE, "C03: no snapshot for a live-only subscription or an absent key");
    }
    // --- then every accepted change once
    let nb: bool = match fixed {
        Some((_, nb)) => nb,
        None => kani::any(),
    };
    let w = aw!(wb.set(s("a"), Value::Bool(nb), cid(2), false));
    let accepted = kind != 2;
    assert!(w.is_ok() == accepted, "C03: set rejected exactly on a CAS value");
    core::mem::forget(w);
    let ev = next_state(&mut rx);
    if accepted {
        let changed = kind == 0 || e.b != nb;
        if changed || !unique {
            assert!(ev == (VALUE, Some(nb)), "C03: an accepted write is delivered to the subscriber");
        } else {
            assert!(ev.0 == NONE, "C03: a value-preserving write is suppressed for a unique subscription");
        }
    } else {
        assert!(ev.0 == NONE, "C03: a rejected write produces no event");
    }
    assert!(next_state(&mut rx).0 == NONE, "C03: no event is delivered twice");
    kani::cover!(ev.0 == VALUE || !accepted);
    core::mem::forget(wb);
}
// @h props=C03,C17 tier=quick cap=600 desc="subscribe(a) on stored plain value, then set a: snapshot then event, non-unique, with snapshot" bounds="key a; values Bool; tid u64"
#[kani::proof]
#[kani::unwind(5)]
#[kani::stub(std::mem::MaybeUninit::write, stub_mu_write)]
#[kani::stub(std::fmt::format, stub_format)]
#[kani::stub(miette::eyreish::capture_handler, stub_capture_handler)]
fn c03_sub_plain_nonunique_snapshot() { c03_subscribe_then_set(1, false, false) }
// @h props=C03,C17 tier=quick cap=600 desc="subscribe(a, unique) on stored plain value, then set a: value-preserving write suppressed" bounds="key a; values Bool; tid u64"
#[kani::proof]
#[kani::unwind(5)]
#[kani::stub(std::mem::MaybeUninit::write, stub_mu_write)]
#[kani::stub(std::fmt::format, stub_format)]
#[kani::stub(miette::eyreish::capture_handler, stub_capture_handler)]
fn c03_sub_plain_unique_snapshot() {
    // whether an event is sent depends on "value changed": the two booleans are split at the top so that
    // each branch is concrete (a symbolic decision here makes the subscriber queue symbolic: out of memory)
    let eb: bool = kani::any();
    let nb: bool = kani::any();
    if eb {
        if nb { c03_subscribe_then_set_v(1, true, false, Some((true, true))) } else { c03_subscribe_then_set_v(1, true, false, Some((true, false))) }
    } else {
        if nb { c03_subscribe_then_set_v(1, true, false, Some((false, true))) } else { c03_subscribe_then_set_v(1, true, false, Some((false, false))) }
    }
}
// @h props=C03,C17 tier=quick cap=600 desc="subscribe(a, live_only) on stored plain value, then set a: no snapshot, then the event" bounds="key a; values Bool; tid u64"
#[kani::proof]
#[kani::unwind(5)]
#[kani::stub(std::mem::MaybeUninit::write, stub_mu_write)]
#[kani::stub(std::fmt::format, stub_format)]
#[kani::stub(miette::eyreish::capture_handler, stub_capture_handler)]
fn c03_sub_plain_nonunique_liveonly() { c03_subscribe_then_set(1, false, true) }
// (tier=manual: exhausts its memory cap since the model queue moves values without drop glue - not investigated further; the absent-key
// delivery is covered by c03_key_cset_absent_ok, the unique filter by c03_sub_plain_unique_snapshot and c03_unique_*)
// @h props=C03,C17 tier=manual cap=600 desc="subscribe(a) on an absent key, then set a: no snapshot, then the event (also for unique)" bounds="key a; values Bool; tid u64"
#[kani::proof]
#[kani::unwind(5)]
#[kani::stub(std::mem::MaybeUninit::write, stub_mu_write)]
#[kani::stub(std::fmt::format, stub_format)]
#[kani::stub(miette::eyreish::capture_handler, stub_capture_handler)]
fn c03_sub_absent_unique_snapshot() {
    // (unique: the written value is concrete per branch, see c03_sub_plain_unique_snapshot)
    let nb: bool = kani::any();
    if nb { c03_subscribe_then_set_v(0, true, false, Some((true, true))) } else { c03_subscribe_then_set_v(0, true, false, Some((true, false))) }
}
// @h props=C03,C17 tier=quick cap=600 desc="subscribe(a) on a CAS value, then plain set a (rejected): snapshot, no event" bounds="key a; values Bool; version u64; tid u64"
#[kani::proof]
#[kani::unwind(5)]
#[kani::stub(std::mem::MaybeUninit::write, stub_mu_write)]
#[kani::stub(std::fmt::format, stub_format)]
#[kani::stub(miette::eyreish::capture_handler, stub_capture_handler)]
fn c03_sub_cas_nonunique_snapshot() { c03_subscribe_then_set(2, false, false) }

// ------------------------------------------------------------------ pattern subscriptions
/// shape {a/b: e (plain or CAS), b: plain}; psubscribe `pat`; then one request.
/// req: 0 = set a/b, 1 = delete a/b, 2 = set b (matches only `#` and `b`-ish patterns), 3 = publish a/b
fn c03_psub(pat: &str, matches_ab: bool, matches_b: bool, cas: bool, live_only: bool, req: u8) {
    let e = E::any(cas);
    let eb = E::any(false);
    let mut wb = wb_with(n2(None, "a", n1(None, "b", n0(Some(e.entry()))), "b", n0(Some(eb.entry()))), 2);
    let tid: u64 = kani::any();
    let r = aw!(wb.psubscribe(cid(1), tid, s(pat), false, live_only));
    let (mut rx, id) = match r {
        Ok(x) => x,
        Err(_) => {
            assert!(false, "C03: psubscribe with a legal pattern is accepted");
            return;
        }
    };
    if !live_only {
        // the snapshot is one event with exactly the matching pairs
        match rx.try_recv() {
            Ok(PStateEvent::KeyValuePairs(kvs)) => {
                assert!(kvs.len() == (matches_ab as usize) + (matches_b as usize), "C03: the snapshot holds exactly the matching keys");
                assert!(crate::store::h::kv_has(&kvs, "a/b", &e) == matches_ab, "C03: snapshot has a/b with its value iff it matches");
                assert!(crate::store::h::kv_has(&kvs, "b", &eb) == matches_b, "C03: snapshot has b with its value iff it matches");
                core::mem::forget(kvs);
            }
            _ => assert!(false, "C03: a pattern subscription starts with the current matching state"),
        }
    }
    assert!(next_pstate(&mut rx, "").0 == NONE, "C03: nothing but the snapshot before the first change");
    let nb: bool = kani::any();
    let (key, touched_matches, expect_kind, expect_val) = if req == 0 {
        let w = aw!(wb.set(s("a/b"), Value::Bool(nb), cid(2), false));
        assert!(w.is_ok() == !cas, "C03: set rejected exactly on a CAS value");
        core::mem::forget(w);
        ("a/b", matches_ab && !cas, VALUE, nb)
    } else if req == 1 {
        let w = aw!(wb.delete(s("a/b"), cid(2)));
        assert!(w.is_ok(), "C03: delete of an existing key is accepted");
        core::mem::forget(w);
        ("a/b", matches_ab, DELETED, e.b)
    } else if req == 2 {
        let w = aw!(wb.set(s("b"), Value::Bool(nb), cid(2), false));
        assert!(w.is_ok(), "C03: set of a plain key is accepted");
        core::mem::forget(w);
        ("b", matches_b, VALUE, nb)
    } else {
        let w = aw!(wb.publish(s("a/b"), Value::Bool(nb)));
        assert!(w.is_ok(), "C03: publish is accepted");
        core::mem::forget(w);
        ("a/b", matches_ab, VALUE, nb)
    };
    let ev = next_pstate(&mut rx, key);
    if touched_matches {
        assert!(ev == (expect_kind, 1, true, Some(expect_val)), "C03: an accepted change of a matching key is delivered once, with key, kind and value");
    } else {
        assert!(ev.0 == NONE, "C03: no event for a key the pattern does not match (or a rejected request)");
    }
    assert!(next_pstate(&mut rx, key).0 == NONE, "C03: no event is delivered twice");
    kani::cover!(ev.0 != NONE || !touched_matches);
    core::mem::forget(wb);
}
macro_rules! c03h {
    ($name:ident, $body:expr) => {
        #[kani::proof]
        #[kani::unwind(5)]
        #[kani::stub(std::mem::MaybeUninit::write, stub_mu_write)]
        #[kani::stub(std::fmt::format, stub_format)]
        #[kani::stub(miette::eyreish::capture_handler, stub_capture_handler)]
        fn $name() {
            $body
        }
    };
}
// @h props=C03,C04,C17 tier=quick cap=900 desc="psubscribe(#) with snapshot on {a/b, b}, then set a/b: snapshot of both keys, then one event" bounds="pattern #; values Bool; tid u64"
c03h!(c03_psub_hash_snapshot_set, c03_psub("#", true, true, false, false, 0));
// @h props=C03,C04,C17 tier=quick cap=900 desc="psubscribe(a/?) live-only on {a/b, b}, then delete a/b: Deleted event with the old value" bounds="pattern a/?; values Bool"
c03h!(c03_psub_aq_live_delete, c03_psub("a/?", true, false, false, true, 1));
// @h props=C03,C04,C17 tier=quick cap=900 desc="psubscribe(a/?) with snapshot on {a/b, b}, then set b: snapshot has only a/b, no event for b" bounds="pattern a/?; values Bool"
c03h!(c03_psub_aq_snapshot_set_other, c03_psub("a/?", true, false, false, false, 2));
// @h props=C03,C04,C17 tier=quick cap=900 desc="psubscribe(a/#) live-only on {a/b(CAS), b}, then plain set a/b (rejected): no event" bounds="pattern a/#; values Bool; version u64"
c03h!(c03_psub_ah_live_rejected_set, c03_psub("a/#", true, false, true, true, 0));
// @h props=C03,C17 tier=quick cap=900 desc="psubscribe(?/b) live-only, then publish a/b: event delivered, nothing stored" bounds="pattern ?/b; values Bool"
c03h!(c03_psub_qb_live_publish, c03_psub("?/b", true, false, false, true, 3));
// @h props=C03,C04,C17 tier=thorough cap=900 desc="psubscribe(b) with snapshot, then set b" bounds="pattern b"
c03h!(c03_psub_b_snapshot_set_b, c03_psub("b", false, true, false, false, 2));
// @h props=C03,C04,C17 tier=thorough cap=900 desc="psubscribe(?) live-only, then delete a/b: not matched, no event" bounds="pattern ?"
c03h!(c03_psub_q_live_delete_ab, c03_psub("?", false, true, false, true, 1));

// ------------------------------------------------------------------ key subscription: delete, publish, unsubscribe, cset
/// subscribe(a) live-only on a stored entry, then one request; req: 0 delete, 1 publish, 2 unsubscribe + set, 3 cset with the current version, 4 cset with another version
fn c03_key_sub(cas: bool, req: u8) {
    let e = E::any(cas);
    let mut wb = wb_with(n1(None, "a", n0(Some(e.entry()))), 1);
    // (unsubscribe compares subscription ids inside Vec::retain: a symbolic id there makes the subscriber
    // list symbolic, so that scenario uses a fixed transaction id)
    let tid: u64 = if req == 2 { 7 } else { kani::any() };
    let r = aw!(wb.subscribe(cid(1), tid, s("a"), false, true));
    let (mut rx, _id) = match r {
        Ok(x) => x,
        Err(_) => {
            assert!(false, "C03: subscribe accepted");
            return;
        }
    };
    let nb: bool = kani::any();
    if req == 0 {
        let w = aw!(wb.delete(s("a"), cid(2)));
        assert!(matches!(&w, Ok(v) if v.as_bool() == Some(e.b)), "C03: delete returns the stored value");
        core::mem::forget(w);
        assert!(next_state(&mut rx) == (DELETED, Some(e.b)), "C03: a delete is delivered as Deleted with the old value");
        let g = wb.get(&s("a"));
        assert!(g.is_err(), "C01: the key is gone");
        core::mem::forget(g);
    } else if req == 1 {
        let w = aw!(wb.publish(s("a"), Value::Bool(nb)));
        assert!(w.is_ok(), "C03: publish accepted");
        core::mem::forget(w);
        assert!(next_state(&mut rx) == (VALUE, Some(nb)), "C03: a publish is delivered as a value event");
        let g = wb.get(&s("a"));
        assert!(matches!(&g, Ok(v) if v.as_bool() == Some(e.b)), "C03: publish does not store anything");
        core::mem::forget(g);
    } else if req == 2 {
        let u = aw!(wb.unsubscribe(cid(1), tid));
        assert!(u.is_ok(), "C03: unsubscribe of an existing subscription is accepted");
        core::mem::forget(u);
        let w = aw!(wb.set(s("a"), Value::Bool(nb), cid(2), true));
        assert!(w.is_ok(), "C03: forced set accepted");
        core::mem::forget(w);
        assert!(next_state(&mut rx).0 == NONE, "C03: no event after unsubscribe");
        let u2 = aw!(wb.unsubscribe(cid(1), tid));
        assert!(u2.is_err(), "C03: a second unsubscribe finds nothing");
        core::mem::forget(u2);
    } else {
        // cset: the decision "carried version == stored version" is made on concrete numbers here (the
        // decision table over all 2^64 versions is C02's); what is checked is the event delivery
        unreachable!()
    }
    assert!(next_state(&mut rx).0 == NONE, "C03: no event is delivered twice");
    kani::cover!(true);
    core::mem::forget(wb);
}
// @h props=C03,C01,C17 tier=quick cap=900 desc="subscribe(a) live-only, then delete a: Deleted event with old value" bounds="key a plain"
c03h!(c03_key_delete_plain, c03_key_sub(false, 0));
// @h props=C03,C01,C17 tier=quick cap=900 desc="subscribe(a) live-only on CAS value, then delete a" bounds="key a CAS(any version)"
c03h!(c03_key_delete_cas, c03_key_sub(true, 0));
// @h props=C03,C08,C17 tier=quick cap=900 desc="subscribe(a) live-only, then publish a: event, nothing stored" bounds="key a plain"
c03h!(c03_key_publish, c03_key_sub(false, 1));
// @h props=C03,C17 tier=quick cap=900 desc="subscribe(a), unsubscribe, then set a: no event after unsubscribe; second unsubscribe refused" bounds="key a plain"
c03h!(c03_key_unsubscribe, c03_key_sub(false, 2));
/// subscribe(a) live-only, then cset carrying `nv` on key a that is absent (kind 0), plain (1) or
/// CAS(u64::MAX) (2). The decision is made on literal versions here - reading the version of a CAS entry back
/// from the tree is not constant-folded by the engine, and a symbolic decision in front of the notification
/// code exhausts memory (measured); the decision table over all 2^64 versions is C02's.
fn c03_cset(kind: u8, nv: u64) {
    let eb: bool = kani::any();
    let mut wb = if kind == 0 {
        wb_with(n1(None, "b", n0(Some(ValueEntry::Plain(Value::Bool(true))))), 1)
    } else if kind == 1 {
        wb_with(n1(None, "a", n0(Some(ValueEntry::Plain(Value::Bool(eb))))), 1)
    } else {
        wb_with(n1(None, "a", n0(Some(ValueEntry::Cas(Value::Bool(eb), u64::MAX)))), 1)
    };
    let tid: u64 = kani::any();
    let r = aw!(wb.subscribe(cid(1), tid, s("a"), false, true));
    let (mut rx, _id) = match r {
        Ok(x) => x,
        Err(_) => {
            assert!(false, "C03: subscribe accepted");
            return;
        }
    };
    let nb: bool = kani::any();
    let w = aw!(wb.cset(s("a"), Value::Bool(nb), nv, cid(2), false));
    let accepted = kind != 2 && nv == 0;
    assert!(w.is_ok() == accepted, "C02: cset accepted iff it carries the current version (0 for absent / plain)");
    core::mem::forget(w);
    let g = wb.cget(&s("a"));
    if accepted {
        assert!(next_state(&mut rx) == (VALUE, Some(nb)), "C03: an accepted cset is delivered");
        assert!(matches!(&g, Ok((v, x)) if v.as_bool() == Some(nb) && *x == 1), "C02: version raised by one");
    } else if kind == 0 {
        assert!(g.is_err(), "C01: rejected cset on an absent key stores nothing");
        assert!(matches!(wb.ls(&None), Ok(l) if l.len() == 1), "C05: rejected cset leaves no child behind");
    } else {
        assert!(matches!(&g, Ok((v, _)) if v.as_bool() == Some(eb)), "C01: rejected cset changes nothing");
    }
    core::mem::forget(g);
    assert!(next_state(&mut rx).0 == NONE, "C03: no further event (none at all for a rejected cset)");
    kani::cover!(true);
    core::mem::forget(wb);
}
// @h props=C03,C02,C01,C17 tier=quick cap=600 desc="subscribe(a) live-only, cset version 0 on the absent key a: accepted, event delivered, version 1" bounds="key a; values Bool"
c03h!(c03_key_cset_absent_ok, c03_cset(0, 0));
// @h props=C03,C02,C01,C05,C17 tier=quick cap=600 desc="subscribe(a) live-only, cset version 5 on the absent key a: rejected, no event, nothing stored, no child left behind" bounds="key a; values Bool"
c03h!(c03_key_cset_absent_rejected, c03_cset(0, 5));
// @h props=C03,C02,C01,C17 tier=quick cap=600 desc="subscribe(a) live-only, cset version 0 on a plain value: accepted (upgrade to CAS), event delivered" bounds="key a; values Bool"
c03h!(c03_key_cset_plain_ok, c03_cset(1, 0));
// @h props=C03,C02,C01,C17 tier=quick cap=600 desc="subscribe(a) live-only, cset version u64::MAX on CAS(u64::MAX): rejected (cannot be raised), no event" bounds="key a; values Bool"
c03h!(c03_key_cset_max, c03_cset(2, u64::MAX));

// ------------------------------------------------------------------ two subscribers, pdelete order
// @h props=C03,C04,C17 tier=quick cap=1200 desc="key subscriber of a/a and pattern subscriber of # ; pdelete a/?: each subscriber gets exactly one Deleted event per deleted matching key, in application order" bounds="shape {a/a, a/b}; 2 subscribers"
c03h!(c03_two_subs_pdelete, {
    let eaa = E::any(false);
    let eab = E::any(true);
    let mut wb = wb_with(n1(None, "a", n2(None, "a", n0(Some(eaa.entry())), "b", n0(Some(eab.entry())))), 2);
    let r1 = aw!(wb.subscribe(cid(1), 1, s("a/a"), false, true));
    let r2 = aw!(wb.psubscribe(cid(2), 2, s("#"), false, true));
    let (mut rx1, mut rx2) = match (r1, r2) {
        (Ok(a), Ok(b)) => (a.0, b.0),
        _ => {
            assert!(false, "C03: both subscriptions accepted");
            return;
        }
    };
    let d = aw!(wb.pdelete(s("a/?"), cid(3)));
    assert!(matches!(&d, Ok(kvs) if kvs.len() == 2), "C04: pdelete a/? removes both keys");
    core::mem::forget(d);
    assert!(next_state(&mut rx1) == (DELETED, Some(eaa.b)), "C03: the key subscriber of a/a gets its Deleted event");
    assert!(next_state(&mut rx1).0 == NONE, "C03: ... and nothing for a/b");
    let p1 = next_pstate(&mut rx2, "a/a");
    let p2 = next_pstate(&mut rx2, "a/b");
    assert!(p1 == (DELETED, 1, true, Some(eaa.b)), "C03: pattern subscriber gets a/a first (order of application)");
    assert!(p2 == (DELETED, 1, true, Some(eab.b)), "C03: ... then a/b");
    assert!(next_pstate(&mut rx2, "").0 == NONE, "C03: and nothing else");
    assert!(wb.len() == 0, "C01: both keys are gone");
    kani::cover!(true);
    core::mem::forget(wb);
});

// ------------------------------------------------------------------ subscriptions are independent of each other
// @h props=C03,C17 tier=quick cap=1200 desc="subscribe(a) and psubscribe(a/#) (pattern extends the key); the key subscription is unsubscribed, then set a/b: the pattern subscription still gets exactly its event" bounds="keys a, a/b; 2 subscriptions; values Bool"
c03h!(c03_unsubscribe_spares_longer_patterns, {
    let ea = E::any(false);
    let mut wb = wb_with(n1(None, "a", n0(Some(ea.entry()))), 1);
    let r1 = aw!(wb.subscribe(cid(1), 1, s("a"), false, true));
    let r2 = aw!(wb.psubscribe(cid(2), 2, s("a/#"), false, true));
    let (mut rx1, mut rx2) = match (r1, r2) {
        (Ok(a), Ok(b)) => (a.0, b.0),
        _ => {
            assert!(false, "C03: both subscriptions accepted");
            return;
        }
    };
    let u = aw!(wb.unsubscribe(cid(1), 1));
    assert!(u.is_ok(), "C03: unsubscribe accepted");
    core::mem::forget(u);
    let nb: bool = kani::any();
    let w = aw!(wb.set(s("a/b"), Value::Bool(nb), cid(3), false));
    assert!(w.is_ok(), "C03: set accepted");
    core::mem::forget(w);
    assert!(next_pstate(&mut rx2, "a/b") == (VALUE, 1, true, Some(nb)), "C03: a subscription that was never unsubscribed keeps receiving the events of its pattern when another subscription on a prefix of it goes away");
    assert!(next_pstate(&mut rx2, "").0 == NONE, "C03: ... exactly once");
    assert!(next_state(&mut rx1).0 == NONE, "C03: the unsubscribed one gets nothing");
    kani::cover!(true);
    core::mem::forget(wb);
});
// @h props=C03,C17 tier=quick cap=1200 desc="psubscribe(a/?) by c1 and subscribe(a/b/c) by c2; c1 unsubscribes, then set a/b/c: c2 still gets its event" bounds="2 subscriptions; values Bool"
c03h!(c03_unsubscribe_pattern_spares_longer_key, {
    let mut wb = wb_with(n0(None), 0);
    let r1 = aw!(wb.psubscribe(cid(1), 1, s("a/?"), false, true));
    let r2 = aw!(wb.subscribe(cid(2), 2, s("a/b/c"), false, true));
    let (mut rx1, mut rx2) = match (r1, r2) {
        (Ok(a), Ok(b)) => (a.0, b.0),
        _ => {
            assert!(false, "C03: both subscriptions accepted");
            return;
        }
    };
    let u = aw!(wb.unsubscribe(cid(1), 1));
    assert!(u.is_ok(), "C03: unsubscribe accepted");
    core::mem::forget(u);
    let nb: bool = kani::any();
    let w = aw!(wb.set(s("a/b/c"), Value::Bool(nb), cid(3), false));
    assert!(w.is_ok(), "C03: set accepted");
    core::mem::forget(w);
    assert!(next_state(&mut rx2) == (VALUE, Some(nb)), "C03: the longer subscription is still served");
    assert!(next_state(&mut rx2).0 == NONE, "C03: ... exactly once");
    kani::cover!(true);
    core::mem::forget(wb);
});
// @h props=C03,C17 tier=quick cap=1200 desc="subscribe(a) by c1 and subscribe(a/b) by c2 (no fork at or below a); the LONGER one is unsubscribed (last subscriber of its leaf), then set a: the shorter subscription still gets exactly its event, and can be unsubscribed afterwards" bounds="2 subscriptions; values Bool"
c03h!(c03_unsubscribe_longer_spares_shorter_key, {
    let mut wb = wb_with(n0(None), 0);
    let r1 = aw!(wb.subscribe(cid(1), 1, s("a"), false, true));
    let r2 = aw!(wb.subscribe(cid(2), 2, s("a/b"), false, true));
    let (mut rx1, mut rx2) = match (r1, r2) {
        (Ok(a), Ok(b)) => (a.0, b.0),
        _ => {
            assert!(false, "C03: both subscriptions accepted");
            return;
        }
    };
    let u = aw!(wb.unsubscribe(cid(2), 2));
    assert!(u.is_ok(), "C03: unsubscribe accepted");
    core::mem::forget(u);
    let nb: bool = kani::any();
    let w = aw!(wb.set(s("a"), Value::Bool(nb), cid(3), false));
    assert!(w.is_ok(), "C03: set accepted");
    core::mem::forget(w);
    assert!(next_state(&mut rx1) == (VALUE, Some(nb)), "C03: a subscription that was never unsubscribed keeps receiving its events when a subscription on a LONGER key / pattern below it goes away");
    assert!(next_state(&mut rx1).0 == NONE, "C03: ... exactly once");
    assert!(next_state(&mut rx2).0 == NONE, "C03: the unsubscribed one gets nothing");
    let u = aw!(wb.unsubscribe(cid(1), 1));
    assert!(u.is_ok(), "C03: the remaining subscription is still known and can be unsubscribed");
    core::mem::forget(u);
    kani::cover!(true);
    core::mem::forget(wb);
});
// @h props=C03,C17 tier=quick cap=1200 desc="psubscribe(a/?) by c1 and psubscribe(a/?/c) by the same client; the LONGER pattern is unsubscribed, then set a/b: the shorter pattern subscription still gets exactly its event" bounds="2 subscriptions of one client; values Bool"
c03h!(c03_unsubscribe_longer_spares_shorter_pattern, {
    let mut wb = wb_with(n0(None), 0);
    let r1 = aw!(wb.psubscribe(cid(1), 1, s("a/?"), false, true));
    let r2 = aw!(wb.psubscribe(cid(1), 2, s("a/?/c"), false, true));
    let (mut rx1, mut rx2) = match (r1, r2) {
        (Ok(a), Ok(b)) => (a.0, b.0),
        _ => {
            assert!(false, "C03: both subscriptions accepted");
            return;
        }
    };
    let u = aw!(wb.unsubscribe(cid(1), 2));
    assert!(u.is_ok(), "C03: unsubscribe accepted");
    core::mem::forget(u);
    let nb: bool = kani::any();
    let w = aw!(wb.set(s("a/b"), Value::Bool(nb), cid(3), false));
    assert!(w.is_ok(), "C03: set accepted");
    core::mem::forget(w);
    assert!(next_pstate(&mut rx1, "a/b") == (VALUE, 1, true, Some(nb)), "C03: a subscription that was never unsubscribed keeps receiving its events when a subscription on a LONGER key / pattern below it goes away");
    assert!(next_pstate(&mut rx1, "").0 == NONE, "C03: ... exactly once");
    assert!(next_pstate(&mut rx2, "").0 == NONE, "C03: the unsubscribed one gets nothing");
    kani::cover!(true);
    core::mem::forget(wb);
});
/// a unique subscription (key or pattern) next to a non-unique key subscription on `a` holding `eb`;
/// one value-preserving and one value-changing set. Whether an event is sent depends on "value changed":
/// `eb` is concrete per branch (split in the harness), see c03_sub_plain_unique_snapshot.
fn c03_unique_next_to_plain(eb: bool, unique_is_pattern: bool) {
    let mut wb = wb_with(n1(None, "a", n0(Some(ValueEntry::Plain(Value::Bool(eb))))), 1);
    let mut rxu_k = None;
    let mut rxu_p = None;
    if unique_is_pattern {
        match aw!(wb.psubscribe(cid(1), 1, s("#"), true, true)) {
            Ok(x) => rxu_p = Some(x.0),
            Err(_) => {
                assert!(false, "C03: psubscribe accepted");
                return;
            }
        }
    } else {
        match aw!(wb.subscribe(cid(1), 1, s("a"), true, true)) {
            Ok(x) => rxu_k = Some(x.0),
            Err(_) => {
                assert!(false, "C03: subscribe accepted");
                return;
            }
        }
    }
    let mut rxn = match aw!(wb.subscribe(cid(2), 2, s("a"), false, true)) {
        Ok(x) => x.0,
        Err(_) => {
            assert!(false, "C03: subscribe accepted");
            return;
        }
    };
    // value-preserving write
    let w = aw!(wb.set(s("a"), Value::Bool(eb), cid(3), false));
    assert!(w.is_ok(), "C03: set accepted");
    core::mem::forget(w);
    assert!(next_state(&mut rxn) == (VALUE, Some(eb)), "C03: value-preserving writes are suppressed ONLY for unique subscriptions: the non-unique one gets its event");
    if let Some(rx) = rxu_k.as_mut() {
        assert!(next_state(rx).0 == NONE, "C03: the unique key subscription gets nothing for a value-preserving write");
    }
    if let Some(rx) = rxu_p.as_mut() {
        assert!(next_pstate(rx, "").0 == NONE, "C03: the unique pattern subscription gets nothing for a value-preserving write");
    }
    // value-changing write
    let w = aw!(wb.set(s("a"), Value::Bool(!eb), cid(3), false));
    assert!(w.is_ok(), "C03: set accepted");
    core::mem::forget(w);
    assert!(next_state(&mut rxn) == (VALUE, Some(!eb)), "C03: change delivered to the non-unique subscription");
    if let Some(rx) = rxu_k.as_mut() {
        assert!(next_state(rx) == (VALUE, Some(!eb)), "C03: change delivered to the unique key subscription");
        assert!(next_state(rx).0 == NONE, "C03: nothing twice");
    }
    if let Some(rx) = rxu_p.as_mut() {
        assert!(next_pstate(rx, "a") == (VALUE, 1, true, Some(!eb)), "C03: change delivered to the unique pattern subscription");
        assert!(next_pstate(rx, "").0 == NONE, "C03: nothing twice");
    }
    assert!(next_state(&mut rxn).0 == NONE, "C03: nothing twice");
    kani::cover!(true);
    core::mem::forget((rxu_k, rxu_p, rxn));
    core::mem::forget(wb);
}
// @h props=C03,C17 tier=quick cap=1200 desc="a unique and a non-unique subscription on the same key; a value-preserving and a value-changing set: unique gets only the change, non-unique gets both" bounds="key a plain; 2 subscriptions; 2 writes; values Bool"
c03h!(c03_unique_and_plain_side_by_side, {
    let eb: bool = kani::any();
    if eb { c03_unique_next_to_plain(true, false) } else { c03_unique_next_to_plain(false, false) }
});
// @h props=C03,C17 tier=quick cap=1200 desc="a unique pattern subscription (#) next to a non-unique key subscription (a); value-preserving and value-changing set" bounds="key a plain; values Bool"
c03h!(c03_unique_pattern_next_to_plain_key, {
    let eb: bool = kani::any();
    if eb { c03_unique_next_to_plain(true, true) } else { c03_unique_next_to_plain(false, true) }
});
