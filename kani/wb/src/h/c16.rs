// @module worterbuch::h
// C16  Aggregated pattern subscriptions batch events without losing or reordering them.
//
// Real code: PStateAggregatorState::{aggregate, send_current_state, send_set_event, send_deleted_event,
// send_aggregated_pstate, key_already_buffered, schedule_send} (worterbuch.rs, private - reached from this
// sibling module). The timer is an EVENT of the environment: `schedule_send` spawns "sleep, then send a tick";
// the model `spawn` only registers the task, the harness decides when it runs (`model_tasks::run_next`) and then
// delivers the tick the way `aggregate_loop` does (tick received -> `send_current_state`). The event sequence and
// the firing pattern are concrete per harness (generated menu), the values are chosen by the solver.
use tokio::model_tasks;

const SA: u8 = 0; // set a
const SB: u8 = 1; // set b
const DA: u8 = 2; // deleted a
const DB: u8 = 3; // deleted b

fn ev(kind: u8, v: bool) -> PStateEvent {
    let key = if kind == SA || kind == DA { "a" } else { "b" };
    let mut kvs = Vec::with_capacity(1);
    kvs.push(KeyValuePair::new(s(key), Value::Bool(v)));
    if kind == SA || kind == SB { PStateEvent::KeyValuePairs(kvs) } else { PStateEvent::Deleted(kvs) }
}

/// everything the client received so far, flattened: (is_delete, key_is_a, value), in arrival order
struct Flat {
    n: usize,
    items: [(bool, bool, bool); 8],
}
fn drain(rx: &mut Receiver<ServerMessage>, out: &mut Flat, tid: u64) {
    loop {
        match rx.try_recv() {
            Ok(ServerMessage::PState(p)) => {
                assert!(p.transaction_id == tid, "C16: batches carry the transaction id of the subscription");
                let (del, kvs) = match p.event {
                    PStateEvent::KeyValuePairs(k) => (false, k),
                    PStateEvent::Deleted(k) => (true, k),
                };
                assert!(kvs.len() >= 1, "C16: no empty batch is sent");
                let mut i = 0;
                while i < kvs.len() {
                    assert!(out.n < 8, "C16: nothing is duplicated (more items than events)");
                    out.items[out.n] = (del, kvs[i].key == "a", kvs[i].value.as_bool() == Some(true));
                    out.n += 1;
                    i += 1;
                }
                core::mem::forget(kvs);
            }
            Ok(_) => assert!(false, "C16: only PState messages are sent"),
            Err(_) => break,
        }
    }
}

/// `fire[i]`: the timer task (if one is registered) runs after event i and its tick is delivered.
fn c16_run(seq: [u8; 3], fire: [bool; 3]) {
    let (client_tx, mut client_rx) = channel::<ServerMessage>(4);
    let tid: u64 = kani::any();
    let mut st = PStateAggregatorState {
        aggregate_duration: Duration::from_millis(10),
        transaction_id: tid,
        request_pattern: s("#"),
        set_buffer: Map::new(),
        deleted_buffer: Map::new(),
        client_sub: client_tx,
        send_is_scheduled: false,
    };
    let (trigger_tx, mut trigger_rx) = channel::<()>(1);
    let vals: [bool; 3] = [kani::any(), kani::any(), kani::any()];
    let mut got = Flat { n: 0, items: [(false, false, false); 8] };
    let mut i = 0;
    while i < 3 {
        let r = aw!(st.aggregate(ev(seq[i], vals[i]), &trigger_tx, cid(1)));
        assert!(r.is_ok(), "C16: aggregation does not fail while the client connection takes messages");
        core::mem::forget(r);
        // invariant: whenever something is buffered, a flush is scheduled and its timer task is still pending
        // or its tick is already queued ("no event waits longer than the interval")
        if !st.set_buffer.is_empty() || !st.deleted_buffer.is_empty() {
            assert!(st.send_is_scheduled, "C16: a buffered event always has a flush scheduled");
            assert!(model_tasks::pending() >= 1 || trigger_rx.len() >= 1, "C16: ... and the timer behind it is really outstanding");
        }
        drain(&mut client_rx, &mut got, tid);
        if fire[i] {
            // the timer fires: its task sends the tick, the loop receives it and flushes
            if model_tasks::run_next() {
                if trigger_rx.try_recv().is_ok() {
                    let f = aw!(st.send_current_state());
                    assert!(f.is_ok(), "C16: flush succeeds");
                    core::mem::forget(f);
                }
            }
            drain(&mut client_rx, &mut got, tid);
        }
        i += 1;
    }
    // finally every outstanding timer fires (quiescent point)
    let mut guard = 0;
    while model_tasks::run_next() && guard < 4 {
        if trigger_rx.try_recv().is_ok() {
            let f = aw!(st.send_current_state());
            core::mem::forget(f);
        }
        guard += 1;
    }
    drain(&mut client_rx, &mut got, tid);
    assert!(st.set_buffer.is_empty() && st.deleted_buffer.is_empty(), "C16: after the last timer nothing stays buffered");
    // per key: the delivered sequence equals the input sequence (nothing lost, duplicated, reordered; set and
    // deleted never cross)
    assert!(got.n == 3, "C16: exactly as many items delivered as events aggregated");
    let mut key_a = 0;
    while key_a < 2 {
        let want_a = key_a == 0;
        let mut gi = 0;
        let mut ii = 0;
        while ii < 3 {
            let in_is_a = seq[ii] == SA || seq[ii] == DA;
            if in_is_a == want_a {
                // next delivered item of this key
                while gi < got.n && got.items[gi].1 != want_a {
                    gi += 1;
                }
                assert!(gi < got.n, "C16: an event of this key is missing");
                let in_del = seq[ii] == DA || seq[ii] == DB;
                assert!(got.items[gi].0 == in_del && got.items[gi].2 == vals[ii], "C16: per key, events arrive in the order and with the kind and value they were produced");
                gi += 1;
            }
            ii += 1;
        }
        key_a += 1;
    }
    kani::cover!(true);
    core::mem::forget(st);
}
macro_rules! c16h {
    ($name:ident, $seq:expr, $fire:expr) => {
        #[kani::proof]
        #[kani::unwind(10)]
        #[kani::stub(std::mem::MaybeUninit::write, stub_mu_write)]
        #[kani::stub(std::fmt::format, stub_format)]
        #[kani::stub(miette::eyreish::capture_handler, stub_capture_handler)]
        fn $name() {
            c16_run($seq, $fire)
        }
    };
}
// @h props=C16,C17 tier=quick cap=900 desc="aggregate set a, set a, deleted a - no timer in between: same key twice forces a flush, delete after set forces a flush" bounds="3 events; values Bool"
c16h!(c16_sa_sa_da_nofire, [SA, SA, DA], [false, false, false]);
// @h props=C16,C17 tier=quick cap=900 desc="aggregate set a, deleted a, set a with the timer firing after the first event" bounds="3 events; values Bool"
c16h!(c16_sa_da_sa_fire0, [SA, DA, SA], [true, false, false]);
// @h props=C16,C17 tier=quick cap=900 desc="aggregate set a, set b, deleted a with the timer firing after the second event" bounds="3 events; values Bool"
c16h!(c16_sa_sb_da_fire1, [SA, SB, DA], [false, true, false]);
// @h props=C16,C17 tier=quick cap=900 desc="aggregate deleted a, set a, deleted b with the timer firing after every event" bounds="3 events; values Bool"
c16h!(c16_da_sa_db_fireall, [DA, SA, DB], [true, true, true]);
// @h props=C16,C17 tier=thorough cap=900 desc="aggregate set a, set b, set a (batched: a twice forces one flush)" bounds="3 events"
c16h!(c16_sa_sb_sa_nofire, [SA, SB, SA], [false, false, false]);
// @h props=C16,C17 tier=thorough cap=900 desc="aggregate deleted a, deleted b, set b with a stale timer firing on empty buffers" bounds="3 events"
c16h!(c16_da_db_sb_fire2, [DA, DB, SB], [false, false, true]);
