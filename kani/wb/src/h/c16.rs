// @module worterbuch::h
// C16  Aggregated pattern subscriptions batch events without losing or reordering them.
//
// Real code: PStateAggregatorState::{aggregate, send_current_state, send_set_event, send_deleted_event,
// send_aggregated_pstate, key_already_buffered, schedule_send} (worterbuch.rs, private - reached from this
// sibling module). The timer is an EVENT of the environment: `schedule_send` spawns "sleep, then send a tick";
// the model `spawn` only registers the task, the harness decides when it runs (`model_tasks::run_next`) and then
// delivers the tick the way `aggregate_loop` does (tick received -> `send_current_state`). The event sequence and
// the firing pattern are concrete per harness (generated menu), the values are chosen by the solver.
#[cfg(kani)]
use tokio::model_tasks;

const SA: u8 = 0; // set a
const SB: u8 = 1; // set b
const DA: u8 = 2; // deleted a
const DB: u8 = 3; // deleted b

fn ev(kind: u8, v: bool) -> PStateEvent {
    let key = if kind == SA || kind == DA { "a" } else { "b" };
    let mut kvs = Vec::with_capacity(1);
    kvs.push(KeyValuePair::new(s(key), Value::Bool(v)));
    if kind == SA || kind == SB { PStateEvent::KeyValuePairs(kvs) } else { PStateEvent::Deleted(kvs) }
}

/// everything the client received so far, flattened: (is_delete, key_is_a, value), in arrival order
struct Flat {
    n: usize,
    items: [(bool, bool, bool); 8],
}
fn drain(rx: &mut Receiver<ServerMessage>, out: &mut Flat, tid: u64) {
    loop {
        match rx.try_recv() {
            Ok(ServerMessage::PState(p)) => {
                assert!(p.transaction_id == tid, "C16: batches carry the transaction id of the subscription");
                let (del, kvs) = match p.event {
                    PStateEvent::KeyValuePairs(k) => (false, k),
                    PStateEvent::Deleted(k) => (true, k),
                };
                assert!(kvs.len() >= 1, "C16: no empty batch is sent");
                // (a batch read back from the model queue is a heap value CBMC does not fold: bounded, byte-wise
                // inspection instead of `==` on strings, whose memcmp would run to its unwind bound each time)
                assert!(kvs.len() <= 2, "C16: a batch holds each key at most once (two keys exist)");
                let mut i = 0;
                while i < 2 {
                    if i < kvs.len() {
                        assert!(out.n < 8, "C16: nothing is duplicated (more items than events)");
                        let kb = kvs[i].key.as_bytes();
                        assert!(kb.len() == 1 && (kb[0] == b'a' || kb[0] == b'b'), "C16: only keys that were aggregated are delivered");
                        out.items[out.n] = (del, kb[0] == b'a', kvs[i].value.as_bool() == Some(true));
                        out.n += 1;
                    }
                    i += 1;
                }
                core::mem::forget(kvs);
            }
            Ok(_) => assert!(false, "C16: only PState messages are sent"),
            Err(_) => break,
        }
    }
}

/// per key: the delivered sequence equals the produced sequence (nothing lost, duplicated, reordered; set and
/// deleted never cross)
fn c16_check(seq: [u8; 3], vals: [bool; 3], got: &Flat) {
    assert!(got.n == 3, "C16: exactly as many items delivered as events aggregated");
    let mut key_a = 0;
    while key_a < 2 {
        let want_a = key_a == 0;
        let mut gi = 0;
        let mut ii = 0;
        while ii < 3 {
            let in_is_a = seq[ii] == SA || seq[ii] == DA;
            if in_is_a == want_a {
                // next delivered item of this key
                while gi < got.n && got.items[gi].1 != want_a {
                    gi += 1;
                }
                assert!(gi < got.n, "C16: an event of this key is missing");
                let in_del = seq[ii] == DA || seq[ii] == DB;
                assert!(got.items[gi].0 == in_del && got.items[gi].2 == vals[ii], "C16: per key, events arrive in the order and with the kind and value they were produced");
                gi += 1;
            }
            ii += 1;
        }
        key_a += 1;
    }
}
/// `fire[i]`: the timer task (if one is registered) runs after event i and its tick is delivered.
#[cfg(kani)]
fn c16_run(seq: [u8; 3], fire: [bool; 3]) {
    let (client_tx, mut client_rx) = channel::<ServerMessage>(4);
    let tid: u64 = kani::any();
    let mut st = PStateAggregatorState {
        aggregate_duration: Duration::from_millis(10),
        transaction_id: tid,
        request_pattern: s("#"),
        set_buffer: Map::new(),
        deleted_buffer: Map::new(),
        client_sub: client_tx,
        send_is_scheduled: false,
    };
    let (trigger_tx, mut trigger_rx) = channel::<()>(1);
    let vals: [bool; 3] = [kani::any(), kani::any(), kani::any()];
    let mut got = Flat { n: 0, items: [(false, false, false); 8] };
    let mut i = 0;
    while i < 3 {
        let r = aw!(st.aggregate(ev(seq[i], vals[i]), &trigger_tx, cid(1)));
        assert!(r.is_ok(), "C16: aggregation does not fail while the client connection takes messages");
        core::mem::forget(r);
        // invariant: whenever something is buffered, a flush is scheduled and its timer task is still pending
        // or its tick is already queued ("no event waits longer than the interval")
        if !st.set_buffer.is_empty() || !st.deleted_buffer.is_empty() {
            // (`send_is_scheduled` itself may be false here: a flush forced by a repeated key clears the flag
            // while the timer that was armed for the flushed batch is still outstanding - that older timer is
            // what bounds the waiting time of the re-buffered event)
            assert!(model_tasks::pending() >= 1 || trigger_rx.len() >= 1, "C16: a buffered event always has an armed timer (or its tick) outstanding: it cannot wait longer than the interval");
        }
        drain(&mut client_rx, &mut got, tid);
        if fire[i] {
            // the timer fires: its task sends the tick, the loop receives it and flushes
            if model_tasks::run_next() {
                if trigger_rx.try_recv().is_ok() {
                    let f = aw!(st.send_current_state());
                    assert!(f.is_ok(), "C16: flush succeeds");
                    core::mem::forget(f);
                }
            }
            drain(&mut client_rx, &mut got, tid);
        }
        i += 1;
    }
    // finally every outstanding timer fires (quiescent point)
    let mut guard = 0;
    while model_tasks::run_next() && guard < 4 {
        if trigger_rx.try_recv().is_ok() {
            let f = aw!(st.send_current_state());
            core::mem::forget(f);
        }
        guard += 1;
    }
    drain(&mut client_rx, &mut got, tid);
    assert!(st.set_buffer.is_empty() && st.deleted_buffer.is_empty(), "C16: after the last timer nothing stays buffered");
    c16_check(seq, vals, &got);
    kani::cover!(true);
    core::mem::forget(st);
}
/// The REAL `aggregate_loop` (its `select!` over event queue and timer ticks) run to quiescence: the events are
/// queued up front, the model `select!` lets the oldest timer fire whenever nothing else is ready, and reports the
/// event queue closed once nothing is left to happen. `reversed`: ticks win over queued events.
#[cfg(kani)]
fn c16_loop(seq: [u8; 3], reversed: bool) {
    let (client_tx, mut client_rx) = channel::<ServerMessage>(4);
    let tid: u64 = kani::any();
    let st = PStateAggregatorState {
        aggregate_duration: Duration::from_millis(10),
        transaction_id: tid,
        request_pattern: s("#"),
        set_buffer: Map::new(),
        deleted_buffer: Map::new(),
        client_sub: client_tx,
        send_is_scheduled: false,
    };
    let vals: [bool; 3] = [kani::any(), kani::any(), kani::any()];
    let (agg_tx, mut agg_rx) = channel::<PStateEvent>(4);
    let mut i = 0;
    while i < 3 {
        let r = agg_tx.try_send(ev(seq[i], vals[i]));
        core::mem::forget(r);
        i += 1;
    }
    agg_rx.model_close_when_idle();
    tokio::model_select_reversed(reversed);
    aw!(st.aggregate_loop(agg_rx, cid(1)));
    let mut got = Flat { n: 0, items: [(false, false, false); 8] };
    drain(&mut client_rx, &mut got, tid);
    assert!(got.n == 3, "C16: every aggregated event is delivered once the timers have fired (no event waits for ever)");
    c16_check(seq, vals, &got);
    kani::cover!(true);
}
/// native replay of every C16 harness: the real aggregate_loop on a real runtime with a 20 ms interval - events
/// back to back, then silence of several intervals, then the same content checks
#[cfg(not(kani))]
fn c16_native(seq: [u8; 3]) {
    let tid: u64 = kani::any();
    let vals: [bool; 3] = [kani::any(), kani::any(), kani::any()];
    let mut got = Flat { n: 0, items: [(false, false, false); 8] };
    crate::vreplay_support::rt_block_on(async {
        let (client_tx, mut client_rx) = channel::<ServerMessage>(8);
        let st = PStateAggregatorState {
            aggregate_duration: Duration::from_millis(20),
            transaction_id: tid,
            request_pattern: s("#"),
            set_buffer: Map::new(),
            deleted_buffer: Map::new(),
            client_sub: client_tx,
            send_is_scheduled: false,
        };
        let (agg_tx, agg_rx) = channel::<PStateEvent>(8);
        let h = spawn(st.aggregate_loop(agg_rx, cid(1)));
        let mut i = 0;
        while i < 3 {
            agg_tx.send(ev(seq[i], vals[i])).await.expect("loop alive");
            i += 1;
        }
        tokio::time::sleep(Duration::from_millis(200)).await;
        drain(&mut client_rx, &mut got, tid);
        h.abort();
    });
    assert!(got.n == 3, "C16: every aggregated event is delivered once the timers have fired (no event waits for ever)");
    c16_check(seq, vals, &got);
}
macro_rules! c16l {
    ($name:ident, $seq:expr, $rev:expr) => {
        #[kani::proof]
        #[kani::unwind(10)]
        #[kani::stub(std::mem::MaybeUninit::write, stub_mu_write)]
        #[kani::stub(std::fmt::format, stub_format)]
        #[kani::stub(miette::eyreish::capture_handler, stub_capture_handler)]
        fn $name() {
            #[cfg(kani)]
            c16_loop($seq, $rev);
            #[cfg(not(kani))]
            c16_native($seq);
        }
    };
}
macro_rules! c16h {
    ($name:ident, $seq:expr, $fire:expr) => {
        #[kani::proof]
        #[kani::unwind(10)]
        #[kani::stub(std::mem::MaybeUninit::write, stub_mu_write)]
        #[kani::stub(std::fmt::format, stub_format)]
        #[kani::stub(miette::eyreish::capture_handler, stub_capture_handler)]
        fn $name() {
            #[cfg(kani)]
            c16_run($seq, $fire);
            #[cfg(not(kani))]
            c16_native($seq);
        }
    };
}
// @h props=C16,C17 tier=quick cap=900 desc="aggregate set a, set a, deleted a - no timer in between: same key twice forces a flush, delete after set forces a flush" bounds="3 events; values Bool"
c16h!(c16_sa_sa_da_nofire, [SA, SA, DA], [false, false, false]);
// @h props=C16,C17 tier=quick cap=900 desc="aggregate set a, deleted a, set a with the timer firing after the first event" bounds="3 events; values Bool"
c16h!(c16_sa_da_sa_fire0, [SA, DA, SA], [true, false, false]);
// @h props=C16,C17 tier=quick cap=900 desc="aggregate set a, set b, deleted a with the timer firing after the second event" bounds="3 events; values Bool"
c16h!(c16_sa_sb_da_fire1, [SA, SB, DA], [false, true, false]);
// @h props=C16,C17 tier=quick cap=900 desc="aggregate deleted a, set a, deleted b with the timer firing after every event" bounds="3 events; values Bool"
c16h!(c16_da_sa_db_fireall, [DA, SA, DB], [true, true, true]);
// @h props=C16,C17 tier=thorough cap=900 desc="aggregate set a, set b, set a (batched: a twice forces one flush)" bounds="3 events"
c16h!(c16_sa_sb_sa_nofire, [SA, SB, SA], [false, false, false]);
// @h props=C16,C17 tier=thorough cap=900 desc="aggregate deleted a, deleted b, set b with a stale timer firing on empty buffers" bounds="3 events"
c16h!(c16_da_db_sb_fire2, [DA, DB, SB], [false, false, true]);

// ------------------------------------------------------------------ the real aggregate_loop
// @h props=C16,C17 tier=quick cap=1200 desc="real aggregate_loop: set a, set a, then silence - the re-buffered event is flushed by the timer armed for the first batch" bounds="3 events queued; timers fire when idle; events win over ticks"
c16l!(c16_loop_sa_sa_sb, [SA, SA, SB], false);
// @h props=C16,C17 tier=quick cap=1200 desc="real aggregate_loop: deleted a, set a, set b (delete and set of one key in one window keep their order)" bounds="3 events queued; timers fire when idle; events win over ticks"
c16l!(c16_loop_da_sa_sb, [DA, SA, SB], false);
// @h props=C16,C17 tier=quick cap=1200 desc="real aggregate_loop: set a, deleted a, set a with ticks winning over queued events" bounds="3 events queued; timers fire when idle; ticks win over events"
c16l!(c16_loop_sa_da_sa_rev, [SA, DA, SA], true);
// @h props=C16,C17 tier=thorough cap=1200 desc="real aggregate_loop: set a, set b, deleted b" bounds="3 events queued"
c16l!(c16_loop_sa_sb_db, [SA, SB, DB], false);
// @h props=C16,C17 tier=quick cap=1200 desc="real aggregate_loop: set a, set b, set b - the forced flush comes with the LAST event, then silence: the re-buffered event must still be flushed by the timer armed earlier" bounds="3 events queued; timers fire when idle"
c16l!(c16_loop_sa_sb_sb, [SA, SB, SB], false);
