// @module worterbuch::h
