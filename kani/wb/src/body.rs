// Shared between the Kani crate (/verif/kani/wb) and the native replay crate (/verif/replay/wb).
include!("/verif/kani/wb/src/body_core.rs");

#[cfg(kani)]
#[kani::proof]
fn zz_nothing() {
    let x: u64 = kani::any();
    assert!(x == x);
}
