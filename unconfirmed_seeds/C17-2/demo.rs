// paste into worterbuch/src/worterbuch.rs
#[cfg(test)]
mod c17_ls_with_separator_only_parent_keeps_server_alive {

    #![allow(clippy::unwrap_used)]

    use super::*;

    const ATTACKER: u128 = 1;
    const WITNESS: u128 = 2;

    async fn server() -> Worterbuch {
        dotenvy::dotenv().ok();
        let mut wb = Worterbuch::with_config(Config::new(None).await.unwrap());
        wb.set(
            "hello/world".to_owned(),
            json!("test"),
            ClientId::from_u128(WITNESS),
            false,
        )
        .await
        .unwrap();
        wb
    }

    async fn witness_round_trip(wb: &mut Worterbuch) {
        wb.set(
            "witness/ping".to_owned(),
            json!(42),
            ClientId::from_u128(WITNESS),
            false,
        )
        .await
        .unwrap();
        assert_eq!(wb.get(&"witness/ping".to_owned()).unwrap(), json!(42));
        assert_eq!(
            wb.ls(&Some("hello".to_owned())).unwrap(),
            vec!["world".to_owned()]
        );
        assert!(wb.ls(&None).unwrap().contains(&"hello".to_owned()));
    }

    /// LS requests whose parent consists of nothing but separators are structurally valid
    /// messages. Whatever the server answers (children or an error), it must answer and
    /// keep serving the well-behaved witness session.
    #[tokio::test]
    async fn ls_with_absurd_parents_does_not_take_the_core_down() {
        let mut wb = server().await;

        for parent in ["", "/", "//", "///"] {
            // any Ok/Err is acceptable, a panic in the core is not
            let _ = wb.ls(&Some(parent.to_owned()));
            witness_round_trip(&mut wb).await;
        }
    }

    /// Same for SUBSCRIBE_LS, which evaluates the parent through the same code path.
    #[tokio::test]
    async fn subscribe_ls_with_absurd_parents_does_not_take_the_core_down() {
        let mut wb = server().await;

        for (tid, parent) in ["", "/", "//"].into_iter().enumerate() {
            let (mut rx, _) = wb
                .subscribe_ls(ClientId::from_u128(ATTACKER), tid as u64, Some(parent.to_owned()))
                .await
                .unwrap();
            // the initial (possibly empty) list of children is always delivered
            assert!(rx.recv().await.is_some());
            witness_round_trip(&mut wb).await;
        }
    }
}
