#!/usr/bin/env python3
"""Regenerates MANIFEST.json from the table below (kept in one place so that it stays valid)."""
import json, os
V = os.path.dirname(os.path.abspath(__file__))

TECH = "bounded symbolic execution of the real Rust sources with Kani 0.68 / CBMC 6.11 (SAT, CaDiCaL); counterexamples replayed natively"
BASE = ("Bounded: holds for all values of the symbolic inputs inside the bounds listed in the evidence (unwinding assertions on). "
        "Trusted: Kani/CBMC/rustc, the environment models in /verif/env (hashbrown slot map, flat serde_json::Value without text codec, "
        "FIFO tokio channels, empty tracing, jsonwebtoken types) and the harness stand-ins. ")

CHECKS = {
 "C02": dict(
  text="Solver-decided decision table of Store::insert over all 2^64 stored and carried CAS versions for every (stored kind x write kind) case, "
       "two-writer and retry-cycle steps; an inductive step, so it composes to request sequences of any length.",
  note=BASE + "Outside the claim: that requests are processed one at a time (single core task + mpsc, worterbuch/src/lib.rs) and the client-side "
       "try_update loop (tokio code, not encoded); values are Bool.", ref="4 C02"),
}

CHECKS.update({
 "C01": dict(
  text="One store operation (set / cset / delete on every key position, pget / pdelete via the C04 family) from generated concrete tree shapes with "
       "solver-chosen contents (values, plain/CAS kinds per harness, 64-bit versions, written value and version); afterwards EVERY read (get, cget, ls of "
       "every parent, ls_root, len) is compared with a reference fold and the clean-tree invariant is re-established, so the step composes to histories "
       "of any length; a rejected request must change nothing any read observes.",
  note=BASE + "Bounds: keys over {a,b}, depth <= 2, <= 2 children per node (model map capacity), values Bool. Store::merge (the import path) is covered for overwrite / add / value onto an inner node. Outside: JSON text decoding of an import, "
       "Worterbuch-level wrappers beyond what C03/C08 harnesses cover, several clients.", ref="4 C01"),
 "C04": dict(
  text="For every pattern of <= 2 segments over {a,b,?,#} (legal and illegal) and generated store shapes: Store::get_matches and Store::delete_matches "
       "return/remove exactly the keys of the documented relation (values, kinds and versions symbolic), illegal multi-wildcards are rejected and change "
       "nothing; Subscribers::get_subscribers notifies a subscriber of the pattern for exactly the same keys (all 6 keys of the menu).",
  note=BASE + "The pattern dimension is a finite generated menu (one harness per pattern and shape), the solver quantifies over the stored contents; "
       "known finding KF-C04-hash-matches-prefix (K/# matches K in the store) is reported, not suppressed. Outside: patterns of >= 3 segments, auth::pattern_matches (C15).",
  ref="4 C04"),
 "C05": dict(
  text="Same generated one-step family as C01: after every set / cset / delete (accepted or rejected) ls of each parent and the root listing equal the "
       "distinct next segments of the reference keys, 'no such value' exactly when nothing is at or below the parent. Store::pls for every pattern of <= 2 segments over {a,b,?} (chosen by the "
       "solver) on {a/a, a/b, b} and on {a/a/b, b} (a value-only leaf next to a deeper branch): exactly the union of the child lists of the matching parents. The child lists REPORTED for "
       "ls-subscribers by Store::insert / delete / delete_matches (subscriptions on the root, an existing parent, a not-yet-existing parent; delete of one / the only child; pdelete a/? removing "
       "both children, ?, a/#, ?/a; new child, overwrite): the LAST list reported for a subscriber equals what ls of its parent returns afterwards, and something is reported whenever the set changed.",
  note=BASE + "Outside the claim: Worterbuch::notify_ls_subscribers / subscribe_ls (the loop that pushes the reported lists into the subscribers' queues in order, and the initial list), ls-subscriptions "
       "during import, rejected cset with ls-subscribers present, patterns of > 2 segments.", ref="A C05"),
 "C06": dict(
  text="Whole lock operations of the real store (Store::lock, acquire_lock, unlock, unlock_all and Lock::release/queue) from directly constructed lock "
       "states (free; held with 0, 1, 2, 3 waiters), caller chosen by the solver: single holder, lock Ok iff free or holder, confirmation exactly once and "
       "exactly at hand-over, first-come order (also after a waiter gave up), non-holder release refused, waiter cancellation, session end, lock tree clean afterwards; plus histories through "
       "the API (lock / acquire / session end of a waiter / release; acquire / acquire / session end of the holder / session end of the new holder) so that the representation invariant "
       "(locked_keys lists what a client holds or waits for) is MAINTAINED by the operations, not only assumed; protocol level: the acquire_lock confirmation task (C13 family).",
  note=BASE + "async/.await of store.rs is lexically de-sugared for the Kani build (gen/deasync.py; counterexamples are replayed against the original async "
       "code with real tokio). Bounds: one key, <= 4 clients, <= 3 waiters, histories of 4 operations. Outside: the spawned confirmation task in protocol v1, Worterbuch::locked monitoring.",
  ref="4 C06"),
 "C17": dict(
  text="Panic-freedom (panic!, unwrap/expect, index, arithmetic overflow, debug_assert!, unreachable!) of every worterbuch function reached by the C01, C02, "
       "C04 and C06 harness families for all their symbolic inputs, plus the explicit clean-tree invariants (store tree and lock tree) after every operation.",
  note=BASE + "Outside: malformed lines (decoder), task isolation between sessions (tokio), resource exhaustion, code not reached by those families. Added after seeded change C17-1: c17_rejected_deep_cset_then_delete_{ab,aab,bab} (a rejected versioned cset on a key with two / three missing path levels, then a delete elsewhere: the developers' is_clean assertion holds, ls shows no ghost).", ref="4 C17"),
})

CHECKS.update({
 "C03": dict(
  text="Worterbuch-level one-request steps on the real core (Worterbuch::{subscribe, psubscribe, unsubscribe, set, cset, delete, pdelete, publish}, "
       "notify_subscribers, Subscribers, Store) with the subscriber queue as model channel: snapshot first (unless live-only) and exactly once; every accepted "
       "change of a matching key delivered exactly once with key, kind (value/deleted) and value, in application order (pdelete over two keys, two subscribers); "
       "value-preserving writes suppressed only for unique subscriptions; nothing for rejected requests or non-matching keys; nothing after unsubscribe; plus the "
       "subscriber routing relation of C04 for all patterns of <= 2 segments.",
  note=BASE + "async/.await de-sugared lexically for the Kani build (gen/deasync.py), counterexamples replayed on the original async code with real tokio. "
       "Decisions that depend on a CAS version read back from the tree are made on literal versions (the engine does not fold them; all 2^64 versions are C02's). "
       "Outside: per-subscription forwarding tasks and socket writers (protocol v0, tokio::spawn), back-pressure on a full queue (pruned), extended_monitoring, import (JSON text). "
       "Added after seeded change C03-3: c03_unsubscribe_longer_spares_shorter_{key,pattern} (unsubscribing the LONGER of two nested subscriptions leaves the shorter one served and still known).",
  ref="4 C03"),
})

CHECKS.update({
 "C08": dict(
  text="(a) The guard check_for_read_only_key as a function over a menu of keys and patterns (also 58-character keys with real client ids): whenever it lets an "
       "ordinary client pass, the pattern must not reach $SYS outside the client's own graveGoods / lastWill / clientName; (b) call sites on the real core: a sentinel "
       "under $SYS with a server-side subscriber, then set / cset (any version) / delete / pdelete / publish / spub_init+spub by an ordinary client - sentinel and "
       "subscriber queue must be unchanged. Known findings (leading wildcard patterns; unguarded publish) are reported, not suppressed.",
  note=BASE + "Bounds: menu of ~25 keys/patterns, one sentinel, client ids c1/c2/internal; memchr is stubbed by its plain byte loop and library loops get per-loop bounds "
       "learnt at run time (unwinding assertions on). Outside: last-will / grave-goods application at disconnect (C07), lock requests, HTTP endpoints.",
  ref="4 C08"),
})

CHECKS.update({
 "C07": dict(
  text="The real Worterbuch::disconnected (with unlock_all, grave_goods_for_client / last_will_for_client incl. serde from_value of the registrations, do_unsubscribe, "
       "internal pdelete of $SYS/clients/<id>/#, burial, last will with forced set, notify_subscribers) from directly constructed two-client states with solver-chosen "
       "values and CAS version: matching keys deleted, last will set also over a CAS value, the victim's $SYS entries / subscriptions / publish streams / locks gone, "
       "lock handed to the waiter and confirmed once, the bystander's registrations, session and subscription untouched, burial event before will event, once each; "
       "last will on a protected $SYS key refused; malformed registration ignored.",
  note=BASE + "Keys are the real 58-character $SYS/clients/<uuid>/... keys; topic! is replaced lexically by a core::fmt-free equivalent for the Kani build (gen/deasync.py, "
       "compared natively), memchr stubbed by its byte loop, per-loop bounds learnt at run time. Grave goods with a leading wildcard erase other clients' registrations: "
       "reported as known finding KF-C08-leading-wildcard. Outside: that every transport calls disconnected (tcp.rs / unix.rs, tokio), extended_monitoring, > 2 clients.",
  ref="4 C07"),
})

CHECKS.update({
 "C09": dict(
  text="In-memory half of flush/load on the real store: Store::export_for_persistence / export / Node slimming and `From<PersistedStore> for Store` from constructed stores "
       "{$SYS/s, a, a/b} with solver-chosen values, kinds (plain / CAS per harness) and 64-bit CAS versions: the tree handed to the serializer holds every user key with the "
       "same value, kind and version and nothing under $SYS, the live store is unchanged by the export, and a store rebuilt from that tree serves the same reads with the "
       "recounted entry count; plus Store::merge (the import path used by load) for overwrite / add / value-onto-inner-node.",
  note=BASE + "Outside the claim: the JSON text codec between export and load (serde_json text, the source of C14's not-applicable), the file layouts v1/v2/v3 and their toggle "
       "files (file I/O), application of grave goods / last wills after load (covered for the live path by C07), values other than Bool.", ref="A C09"),
 "C13": dict(
  text="Every request kind of protocol v0 and v1 (get, cget, pget, set, cset, spub_init, spub, publish, subscribe, psubscribe, unsubscribe, delete, pdelete, ls, pls, subscribe_ls, "
       "unsubscribe_ls, lock, acquire_lock, release_lock, transform) through the real V0/V1::process_incoming_message and handlers against a NONDETERMINISTIC core (stand-in API: "
       "the solver chooses success or one of the core's errors), transaction id any u64: exactly one message is queued for the client, it carries the request's id, it is of the "
       "kind the protocol assigns (Ack/State/PState/CState/LsState) or an Err with ErrorCode::from(reason), the handler returns Ok (session continues), one core call per request, "
       "a forwarding task is spawned exactly for an acknowledged subscription; request kinds the negotiated version does not implement are answered with Err NotImplemented (fixed finding); the acquire_lock confirmation task answers exactly once after the core "
       "decided (Ack when granted, Err LockAcquisitionCancelled when cancelled); ErrorCode::from(&WorterbuchError) maps every constructible reason to the code named after it (fixed finding).",
  note=BASE + "One request per harness on a fresh session state (the handlers keep no per-session state besides the queue, so this composes to pipelined sequences); the core is a stand-in "
       "(src/standin_api.rs) - what the real core answers is C01-C08. Outside: decoding of the request line (serde_json text), Proto::process_incoming_message's protocol switch, the "
       "socket loops of tcp.rs / unix.rs / websocket (read: an Err from the handler ends the session), the forwarding tasks' bodies, several concurrent sessions (tokio).", ref="A C13"),
 "C15": dict(
  text="auth.rs on the real code: (a) pattern containment `pattern_matches`/AuthCheck for every granted pattern of <= 3 segments over {a,b,?,#} (one generated harness per grant) "
       "against a solver-chosen requested pattern of <= 3 segments over the same alphabet, compared with a reference containment relation; (b) JwtClaims::authorize selects the grant "
       "list of exactly the requested privilege (read / write / delete), flag privileges only for flag checks, no grant list = refused; (c) call sites with authorization ON "
       "(real V0/V1::process_incoming_message, check_auth, authorize; stand-in core): per request kind, token chosen by the solver (none / read / write / delete grant): the core is "
       "called iff the token grants THE privilege that kind needs; otherwise Err Unauthorized with the request's id, no core call, session continues; without a token nothing that "
       "needs a privilege reaches the core; two requests on one session are decided independently of each other.",
  note=BASE + "Outside the claim: token validation (jsonwebtoken is a types-only model; signature / expiry checks are not encoded; a session counts as authorized when the "
       "handlers are handed claims), keys other than a / a/# / ? at the call sites, cset at the call site (memory cap, tier=manual), patterns of depth 4, the HTTP endpoints. Added after seeded change C15-3: c15_contain_segment_boundaries decides containment for multi-character segments (grant ab/# vs abc, abc/x, a, ...), since every generated menu uses one-character segments and cannot see a matcher that compares by string prefix instead of by segment.", ref="A C15"),
 "C16": dict(
  text="The real PStateAggregatorState::{aggregate_loop, aggregate, send_current_state, send_set_event, send_deleted_event, key_already_buffered, schedule_send} driven event by event with the timer "
       "as an environment event (the model `spawn` registers the timer task, the harness decides when it runs and delivers the tick as aggregate_loop does): for generated sequences "
       "of 3 set/deleted events over keys {a,b} and firing patterns, values chosen by the solver: per key the delivered sequence equals the produced one (kind, value, order), nothing "
       "lost or duplicated, no empty batch, batches carry the subscription's id, and whenever something is buffered an armed timer or its tick is outstanding.",
  note=BASE + "Bounds: 3 events, 2 keys, 6 generated (sequence, firing) combinations, values Bool; hashlink::LinkedHashMap is a 2-slot insertion-ordered model. Outside: real time (the bound "
       "'not longer than the interval' is established as 'a timer armed at or before the event is outstanding' and, for the real aggregate_loop run through the model select! "
       "(first ready branch in source order or reversed; timers fire when everything is idle), as 'everything is delivered once the timers have fired'), random branch choice of the real "
       "select!, client back-pressure. Native replay runs the real loop on a real runtime with a 20 ms interval (events back to back, then silence).", ref="A C16"),
 "C19": dict(
  text="Cluster orchestrator: (a) quorum_sanity_check and Config::update_quorum (sliced verbatim) for every number of configured peers <= 4096 and any configured quorum: the default "
       "quorum is a strict majority of all nodes, a configured quorum is accepted iff it is a strict majority and not larger than the node count; (b) the real election.rs "
       "(Election::process_peer_election_message / process_vote_response / is_part_of_cluster): over generated message sequences (distinct votes, duplicates, strangers, heartbeats) and "
       "a one-step harness with symbolic vote count and quorum, the node becomes leader exactly when own vote + votes of DISTINCT CONFIGURED peers reach the quorum.",
  note=BASE + "Bounds: 4 configured peers, sequences of 4 messages with quorum 3, one symbolic step with quorum 1..5. Outside: UDP transport, timeouts / election rounds over time, "
       "two candidates racing (schedules), the leader's heartbeat loop, process supervision. NOT covered (seeded change C19-3 is undecided, exit 2): the start of an election round (election_round: reset of the vote count and of the list of peers still allowed to vote) - the round function is a four-branch select! over socket, timer, config channel and shutdown, and peer messages arrive as JSON text; the harnesses call process_peer_election_message directly and set votes_in_my_favor themselves, so a change that restructures those fields makes the harness crate fail to build (inconclusive, never a pass).", ref="A C19"),
})

CHECKS.update({
 "C11": dict(
  text="One client write on the leader as two solver-decided steps sharing the forwarded command as interface, on the real code: (1) mapping - `forward_api_call` / "
       "`forward_to_followers` (lib.rs) on a set / cset / delete / pdelete with solver-chosen payload (value, 64-bit version) queues exactly one command of the matching kind "
       "with the client's key, value and version, UNFORCED, for the follower; reads and session calls queue nothing; (2) apply - two real cores with equal contents "
       "(solver-chosen values, plain / CAS kinds, 64-bit stored version): the leader executes the core call `process_api_call` makes for the request, the follower the real "
       "`process_leader_message(Mut(command))`; afterwards both answer the same cget for every key and have the same length - also when the leader REJECTED the request (set on a CAS key).",
  note=BASE + "Covered apply steps: set (plain key, CAS key), delete, pdelete. NOT reached (out of memory at 45 GB, stated rather than claimed): the apply step of cset, session end "
       "(`disconnected` on the leader vs what the follower is sent), follower join (`initial_sync` / StateSync) and the follower's refusal of direct writes (the 27-variant `WbFunction` "
       "dispatch of process_api_call is a union whose tag CBMC does not fold - every arm runs at once); harnesses for them exist (tier=manual) and their first results are described "
       "in DESIGN.md A as unconfirmed observations, not findings. Outside: TCP transport and line codec of the sync channel, more than one follower, quiescence detection.", ref="A C11"),
})

CHECKS.update({
 "C10": dict(
  text="The WHOLE persistence/json/v3.rs (synchronous, asynchronous, write_and_check, write_to_disk, write_file, validate_file_content, load, try_load, "
       "try_load_grave_goods_last_will, read_json_from_file, file_paths, toggle_alternating_files and its selector switch, compute_checksum, validate_checksum) executed symbolically on a MODEL FILE "
       "SYSTEM whose process can be killed: the crash point - the number c of mutating file operations (create, write_all, rename, remove_file) the flush is allowed before every call fails - "
       "and the byte a reader finds in a torn file are the solver's variables. From the directory two completed flushes leave (both selector states; a separate harness shows a real flush "
       "writes exactly that layout), a third flush (shutdown flush `synchronous` and periodic flush `asynchronous`) is killed after c operations for EVERY c in 0..=14 (14 = the whole flush), "
       "the server restarts and runs the real `load`: something loads; the store is the last completed snapshot or the one in progress (the new one if the flush reported success), never the "
       "older one, never a torn or partial file; the grave goods and last wills applied are those of the SAME snapshot. Also: the second flush ever (quick) and the first flush ever (thorough).",
  note=BASE + "Environment model (trusted, listed in the evidence): file system = 20 named slots (10 file names + their *.tmp), atomic rename / create / remove, operations persist in order "
       "(the property's own process-crash model; no fsync / power-loss reordering), an interrupted write_all leaves a torn file; the JSON text codec is a token codec (snapshots are opaque triples "
       "(k, k+3, k+6)), SHA-256 + hex an injective stand-in (assumption: no collisions); format! inside v3.rs is shadowed (only \"{}.tmp\" modelled); Worterbuch / Config / CloneableWbApi are stand-ins "
       "(export, from_persistence, apply_grave_goods, apply_last_wills record what they are given). Counterexamples are replayed on the ORIGINAL async v3.rs with REAL tokio::fs in a scratch directory, "
       "REAL serde_json text and REAL SHA-256. Outside the claim: `periodic`'s select! loop and PERSISTENCE_LOCKED, the v2 / v1 fallback loaders, sequences of two crashes, concurrent periodic + shutdown "
       "flushes, the real store behind export / from_persistence (C09), ReDB (C18). Open finding KF-C10-first-flush-store-without-registrations (thorough tier, reported as KNOWN-FINDING): a kill inside the FIRST flush ever, after the store files and before the registrations are complete, restores that store without grave goods / last wills. NOT covered (seeded change C10-2 is missed): sequences of two crashes (crash -> restart -> flush -> crash) - one crash per harness is the bound.", ref="A C10"),
})

NA = {
}
PENDING = []
NA_FIXED = {
 "C12": "promotion of a follower is the composition of the sync channel (TCP, line codec), the persistence files (C10 decides their crash consistency for snapshots as opaque tokens) and process supervision by the cluster orchestrator; the only sequential kernel - that a follower's store equals the leader's after each forwarded command - is what C11 decides, and the part specific to C12 (registrations known to the follower at promotion) needs initial_sync / StateSync, which did not fit (C11 level_note)",
 "C14": "the property is the serde_json text codec composed with serde derives; the real codec exhausts 17-19 GB / 10 min under Kani/CBMC for a one-field message (measured), and a model codec would only verify the model",
 "C18": "ReDB is an on-disk B-tree behind a background writer task and file I/O; neither the database nor the batching schedule can be executed symbolically here and no pure kernel of the property remains",
 "C20": "answer pairing under concurrent tasks, a live server and a time-driven send buffer are schedule properties of multi-task tokio code; Kani does not handle concurrency and the one sequential kernel (transaction-id allocation) decides no clause of the statement",
}

def main():
    checks = []
    for pid, c in sorted(CHECKS.items()):
        checks.append({
            "property_id": pid,
            "quick_cmd": f"./check {pid} --tier quick",
            "thorough_cmd": f"./check {pid} --tier thorough",
            "evidence_file": f"/verif/evidence/{pid}.json",
            "replay_cmd_template": "./check --replay {path}",
            "engine": "kani-cbmc",
            "level_claimed": {"category": "proof", "text": c["text"] + " 'proof' is used in the schema's sense of obligations discharged by a checker (CBMC properties, all SUCCESS) - it is a bounded result, not an unbounded proof.", "design_ref": "DESIGN.md " + c["ref"]},
            "level_note": c["note"],
            "technique": TECH,
        })
    na = [{"property_id": k, "reason": v} for k, v in sorted(NA_FIXED.items())]
    for k, v in sorted(NA.items()):
        na.append({"property_id": k, "reason": v})
    for k in PENDING:
        if k not in CHECKS and k not in NA:
            na.append({"property_id": k, "reason": "check not built yet (work in progress, see DESIGN.md 4)"})
    m = {
        "version": 1,
        "setup_cmd": "./check --prepare --jobs 4",
        "hooks": {
            "guard": "none",
            "enable": "no hooks: the harness crates include! the current sources of /repo; nothing in /repo is instrumented",
            "baseline_off_cmd": "cd /repo && cargo nextest run --workspace --no-fail-fast --offline --test-threads 8",
            "source_commits": [],
            "add_only": True,
        },
        "engines": [{"name": "kani-cbmc", "path": "/verif/check", "serves_properties": sorted(CHECKS), "kind_free_text": TECH}],
        "checks": checks,
        "not_applicable": sorted(na, key=lambda x: x["property_id"]),
        "notes": "Solver-based checking of the real code; see DESIGN.md (section A = as built). Fix commits in /repo (each a genuine defect found by a check, replayed natively; known_findings.json status fixed): e5d19e9, 45f8a30, fdbe9fb, f2021a5, 26f2741, 9db8c51. Open findings are reported as KNOWN-FINDING lines (exit 0). Seeded changes and what caught them: seeded/ and DESIGN.md A.",
    }
    json.dump(m, open(os.path.join(V, "MANIFEST.json"), "w"), indent=1)

if __name__ == "__main__":
    main()
