#!/usr/bin/env python3
"""Regenerates MANIFEST.json from the table below (kept in one place so that it stays valid)."""
import json, os
V = os.path.dirname(os.path.abspath(__file__))

TECH = "bounded symbolic execution of the real Rust sources with Kani 0.68 / CBMC 6.11 (SAT, CaDiCaL); counterexamples replayed natively"
BASE = ("Bounded: holds for all values of the symbolic inputs inside the bounds listed in the evidence (unwinding assertions on). "
        "Trusted: Kani/CBMC/rustc, the environment models in /verif/env (hashbrown slot map, flat serde_json::Value without text codec, "
        "FIFO tokio channels, empty tracing, jsonwebtoken types) and the harness stand-ins. ")

CHECKS = {
 "C02": dict(
  text="Solver-decided decision table of Store::insert over all 2^64 stored and carried CAS versions for every (stored kind x write kind) case, "
       "two-writer and retry-cycle steps; an inductive step, so it composes to request sequences of any length.",
  note=BASE + "Outside the claim: that requests are processed one at a time (single core task + mpsc, worterbuch/src/lib.rs) and the client-side "
       "try_update loop (tokio code, not encoded); values are Bool.", ref="4 C02"),
}

NA = {
}
PENDING = ["C01","C03","C04","C05","C06","C07","C08","C09","C10","C11","C12","C13","C15","C16","C17","C19"]
NA_FIXED = {
 "C14": "the property is the serde_json text codec composed with serde derives; the real codec exhausts 17-19 GB / 10 min under Kani/CBMC for a one-field message (measured), and a model codec would only verify the model",
 "C18": "ReDB is an on-disk B-tree behind a background writer task and file I/O; neither the database nor the batching schedule can be executed symbolically here and no pure kernel of the property remains",
 "C20": "answer pairing under concurrent tasks, a live server and a time-driven send buffer are schedule properties of multi-task tokio code; Kani does not handle concurrency and the one sequential kernel (transaction-id allocation) decides no clause of the statement",
}

def main():
    checks = []
    for pid, c in sorted(CHECKS.items()):
        checks.append({
            "property_id": pid,
            "quick_cmd": f"./check {pid} --tier quick",
            "thorough_cmd": f"./check {pid} --tier thorough",
            "evidence_file": f"/verif/evidence/{pid}.json",
            "replay_cmd_template": "./check --replay {path}",
            "engine": "kani-cbmc",
            "level_claimed": {"category": "proof", "text": c["text"] + " 'proof' is used in the schema's sense of obligations discharged by a checker (CBMC properties, all SUCCESS) - it is a bounded result, not an unbounded proof.", "design_ref": "DESIGN.md " + c["ref"]},
            "level_note": c["note"],
            "technique": TECH,
        })
    na = [{"property_id": k, "reason": v} for k, v in sorted(NA_FIXED.items())]
    for k, v in sorted(NA.items()):
        na.append({"property_id": k, "reason": v})
    for k in PENDING:
        if k not in CHECKS and k not in NA:
            na.append({"property_id": k, "reason": "check not built yet (work in progress, see DESIGN.md 4)"})
    m = {
        "version": 1,
        "setup_cmd": "./check --prepare --jobs 4",
        "hooks": {
            "guard": "none",
            "enable": "no hooks: the harness crates include! the current sources of /repo; nothing in /repo is instrumented",
            "baseline_off_cmd": "cd /repo && cargo nextest run --workspace --no-fail-fast --offline --test-threads 8",
            "source_commits": [],
            "add_only": True,
        },
        "engines": [{"name": "kani-cbmc", "path": "/verif/check", "serves_properties": sorted(CHECKS), "kind_free_text": TECH}],
        "checks": checks,
        "not_applicable": sorted(na, key=lambda x: x["property_id"]),
        "notes": "Solver-based checking of the real code; see DESIGN.md. Fix commits in /repo are listed in known_findings.json (status fixed).",
    }
    json.dump(m, open(os.path.join(V, "MANIFEST.json"), "w"), indent=1)

if __name__ == "__main__":
    main()
