//! Native replay crate for the "persist" harnesses (C10): ORIGINAL async persistence/json/v3.rs of /repo on REAL
//! tokio::fs in a scratch directory, REAL serde_json text codec, REAL SHA-256 / hex. The kill is simulated by the
//! same budget of mutating file operations as in the model (body.rs, `cfg(not(kani))` side).
#![allow(dead_code, unused_imports, unused_variables, unused_mut, clippy::all)]
pub mod vreplay_support {
    pub fn rt_block_on<F: core::future::Future>(f: F) -> F::Output {
        thread_local! {
            static RT: tokio::runtime::Runtime = tokio::runtime::Builder::new_current_thread().enable_all().build().unwrap();
        }
        RT.with(|rt| rt.block_on(f))
    }
}
macro_rules! src {
    ("v3.rs") => { include!("/repo/worterbuch/src/persistence/json/v3.rs"); };
}
macro_rules! model_prelude {
    () => {};
}
macro_rules! aw {
    ($e:expr) => { crate::vreplay_support::rt_block_on($e) };
}
include!("/verif/kani/persist/src/body.rs");
