//! Native replay crate for the "auth" harnesses: ORIGINAL auth.rs of /repo with the REAL crates.
#![allow(dead_code, unused_imports, unused_variables, unused_mut, clippy::all)]
include!("/verif/kani/auth/src/body.rs");
