//! Native-replay stand-ins for Kani's attributes: `#[kani::proof]` becomes `#[test]`,
//! the bound attributes disappear.
use proc_macro::TokenStream;

#[proc_macro_attribute]
pub fn proof(_attr: TokenStream, item: TokenStream) -> TokenStream {
    let mut out: TokenStream = "#[test]".parse().unwrap();
    out.extend(item);
    out
}
#[proc_macro_attribute]
pub fn unwind(_attr: TokenStream, item: TokenStream) -> TokenStream { item }
#[proc_macro_attribute]
pub fn solver(_attr: TokenStream, item: TokenStream) -> TokenStream { item }
#[proc_macro_attribute]
pub fn stub(_attr: TokenStream, item: TokenStream) -> TokenStream { item }
#[proc_macro_attribute]
pub fn should_panic(_attr: TokenStream, item: TokenStream) -> TokenStream { item }
