//! Native replay crate: the same wrapper modules and harness bodies as /verif/kani/core, but
#![allow(dead_code, unused_imports, unused_variables, unused_mut, clippy::all)]
//! linked against the REAL hashbrown, serde_json, tokio and tracing.
pub mod vreplay_support {
    /// poll to completion with a no-op waker (no future of the replayed scenarios really suspends)
    pub fn block_on<F: core::future::Future>(f: F) -> F::Output {
        let mut f = core::pin::pin!(f);
        let waker = core::task::Waker::noop();
        let mut cx = core::task::Context::from_waker(&waker);
        loop {
            if let core::task::Poll::Ready(v) = f.as_mut().poll(&mut cx) {
                return v;
            }
            panic!("replay: future is pending");
        }
    }
    /// `from_slots` exists only on the model map; natively it is an ordinary insert sequence.
    pub trait FromSlots<K, V>: Sized {
        fn from_slots<const N: usize>(slots: [Option<(K, V)>; N]) -> Self;
    }
    impl<K: core::hash::Hash + Eq, V> FromSlots<K, V> for hashbrown::HashMap<K, V> {
        fn from_slots<const N: usize>(slots: [Option<(K, V)>; N]) -> Self {
            let mut m = hashbrown::HashMap::new();
            for s in slots {
                if let Some((k, v)) = s {
                    m.insert(k, v);
                }
            }
            m
        }
    }
}
/// native replay runs the ORIGINAL async sources of /repo against real tokio
macro_rules! src {
    ("store.rs") => { include!("/repo/worterbuch/src/store.rs"); };
    ("subscribers.rs") => { include!("/repo/worterbuch/src/subscribers.rs"); };
}
macro_rules! model_prelude {
    () => {};
}
macro_rules! aw {
    ($e:expr) => { crate::vreplay_support::block_on($e) };
}
include!("/verif/kani/core/src/body.rs");
