//! Native replay crate: the same wrapper modules and harness bodies as /verif/kani/core, but
#![allow(dead_code, unused_imports, unused_variables, unused_mut, clippy::all)]
//! linked against the REAL hashbrown, serde_json, tokio and tracing.
pub mod vreplay_support {
    /// `from_slots` exists only on the model map; natively it is an ordinary insert sequence.
    pub trait FromSlots<K, V>: Sized {
        fn from_slots<const N: usize>(slots: [Option<(K, V)>; N]) -> Self;
    }
    impl<K: core::hash::Hash + Eq, V> FromSlots<K, V> for hashbrown::HashMap<K, V> {
        fn from_slots<const N: usize>(slots: [Option<(K, V)>; N]) -> Self {
            let mut m = hashbrown::HashMap::new();
            for s in slots {
                if let Some((k, v)) = s {
                    m.insert(k, v);
                }
            }
            m
        }
    }
}
include!("/verif/kani/core/src/body.rs");
