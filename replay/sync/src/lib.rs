//! Native replay crate for the "sync" harnesses (C11): ORIGINAL async sources of /repo, REAL hashbrown,
//! hashlink, serde_json, tokio, tracing, miette.
#![allow(dead_code, unused_imports, unused_variables, unused_mut, clippy::all)]
pub mod vreplay_support {
    pub fn block_on<F: core::future::Future>(f: F) -> F::Output {
        let mut f = core::pin::pin!(f);
        let waker = core::task::Waker::noop();
        let mut cx = core::task::Context::from_waker(&waker);
        match f.as_mut().poll(&mut cx) {
            core::task::Poll::Ready(v) => v,
            core::task::Poll::Pending => panic!("replay: future is pending"),
        }
    }
    /// a real runtime (timers, spawned tasks) for the harnesses that run whole loops
    pub fn rt_block_on<F: core::future::Future>(f: F) -> F::Output {
        thread_local! {
            static RT: tokio::runtime::Runtime = tokio::runtime::Builder::new_current_thread().enable_time().build().unwrap();
        }
        RT.with(|rt| rt.block_on(f))
    }
    pub trait FromSlots<K, V>: Sized {
        fn from_slots<const N: usize>(slots: [Option<(K, V)>; N]) -> Self;
    }
    impl<K: core::hash::Hash + Eq, V> FromSlots<K, V> for hashbrown::HashMap<K, V> {
        fn from_slots<const N: usize>(slots: [Option<(K, V)>; N]) -> Self {
            let mut m = hashbrown::HashMap::new();
            for s in slots {
                if let Some((k, v)) = s {
                    m.insert(k, v);
                }
            }
            m
        }
    }
}
macro_rules! src {
    ("store.rs") => { include!("/repo/worterbuch/src/store.rs"); };
    ("subscribers.rs") => { include!("/repo/worterbuch/src/subscribers.rs"); };
    ("worterbuch.rs") => { include!("/repo/worterbuch/src/worterbuch.rs"); };
    ("config.rs") => { include!("/verif/kani/wb/standin/config.rs"); };
    ("persistence.rs") => { include!("/verif/kani/wb/standin/persistence.rs"); };
}
macro_rules! ssrc {
    ("wbfunction.rs") => { include!("/verif/kani/sync/gen_slices/wbfunction.rs"); };
    ("lf_types.rs") => { include!("/verif/kani/sync/gen_slices/lf_types.rs"); };
    ("leader_fns.rs") => { include!("/verif/kani/sync/gen_slices/leader_fns.rs"); };
    ("follower_fns.rs") => { include!("/verif/kani/sync/gen_slices/follower_fns.rs"); };
    ("lib_fns.rs") => { include!("/verif/kani/sync/gen_slices/lib_fns.rs"); };
}
macro_rules! model_prelude {
    () => {};
}
macro_rules! aw {
    ($e:expr) => { crate::vreplay_support::block_on($e) };
}
macro_rules! wb_harnesses {
    () => {
        include!("/verif/kani/sync/src/h/wbside.rs");
    };
}
include!("/verif/kani/sync/src/body.rs");
