//! Native replay crate for the "proto" harnesses: ORIGINAL async v0.rs / v1.rs / Proto items of /repo, REAL
//! tokio, serde_json, jsonwebtoken, tracing, miette; the same stand-in core (answers are ready futures).
#![allow(dead_code, unused_imports, unused_variables, unused_mut, clippy::all)]
macro_rules! model_prelude {
    () => {};
}
macro_rules! psrc {
    ("v0.rs") => { include!("/repo/worterbuch/src/server/common/protocol/v0.rs"); };
    ("v1.rs") => { include!("/repo/worterbuch/src/server/common/protocol/v1.rs"); };
    ("proto_items.rs") => { include!("/verif/kani/proto/gen_slices/proto_items.rs"); };
    ("subinfo.rs") => { include!("/verif/kani/proto/gen_slices/subinfo.rs"); };
}
pub type R<T> = core::future::Ready<T>;
pub fn ret<T>(t: T) -> core::future::Ready<T> {
    core::future::ready(t)
}
pub fn block_on<F: core::future::Future>(f: F) -> F::Output {
    // a real (current-thread) runtime: the handlers spawn forwarding tasks
    thread_local! {
        static RT: tokio::runtime::Runtime = tokio::runtime::Builder::new_current_thread().enable_time().build().unwrap();
    }
    RT.with(|rt| rt.block_on(f))
}
macro_rules! aw {
    ($e:expr) => { crate::block_on($e) };
}
pub fn tasks_spawned() -> Option<usize> {
    None
}
pub fn run_tasks() {
    block_on(async {
        for _ in 0..8 {
            tokio::task::yield_now().await;
        }
    })
}
include!("/verif/kani/proto/src/body.rs");
