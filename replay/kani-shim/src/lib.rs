//! Native replay of a solver counterexample: `kani::any()` returns, in call order, the
//! concrete values the solver chose (env VERIF_REPLAY_VALUES = JSON list of byte lists, the
//! format of Kani's concrete playback). `assume(false)` means the replay left the path the
//! solver described: the test then *passes* (nothing reproduced) and says so.
pub use kani_shim_macros::{proof, should_panic, solver, stub, unwind};
use std::cell::RefCell;

thread_local! {
    static VALUES: RefCell<Option<std::collections::VecDeque<Vec<u8>>>> = RefCell::new(None);
}

fn next_bytes(n: usize) -> Vec<u8> {
    VALUES.with(|v| {
        let mut v = v.borrow_mut();
        if v.is_none() {
            let raw = std::env::var("VERIF_REPLAY_VALUES").unwrap_or_else(|_| "[]".to_owned());
            *v = Some(parse(&raw));
        }
        match v.as_mut().unwrap().pop_front() {
            Some(b) => {
                assert!(b.len() == n, "replay: value width mismatch (expected {n} bytes, got {})", b.len());
                b
            }
            None => vec![0; n],
        }
    })
}

fn parse(raw: &str) -> std::collections::VecDeque<Vec<u8>> {
    // minimal parser for [[1,2],[3]]
    let mut out = std::collections::VecDeque::new();
    let mut cur: Option<Vec<u8>> = None;
    let mut num: Option<u32> = None;
    let mut depth = 0;
    for c in raw.chars() {
        match c {
            '[' => { depth += 1; if depth == 2 { cur = Some(Vec::new()); } }
            ']' => {
                if depth == 2 {
                    let mut v = cur.take().unwrap();
                    if let Some(n) = num.take() { v.push(n as u8); }
                    out.push_back(v);
                }
                depth -= 1;
            }
            ',' => { if depth == 2 { if let Some(n) = num.take() { cur.as_mut().unwrap().push(n as u8); } } }
            d if d.is_ascii_digit() => { num = Some(num.unwrap_or(0) * 10 + d.to_digit(10).unwrap()); }
            _ => {}
        }
    }
    out
}

pub trait Arbitrary: Sized {
    fn any() -> Self;
}
macro_rules! prim {
    ($($t:ty),*) => {$(
        impl Arbitrary for $t {
            fn any() -> Self {
                let b = next_bytes(core::mem::size_of::<$t>());
                let mut a = [0u8; core::mem::size_of::<$t>()];
                a.copy_from_slice(&b);
                <$t>::from_le_bytes(a)
            }
        }
    )*};
}
prim!(u8, u16, u32, u64, u128, usize, i8, i16, i32, i64, i128, isize);
impl Arbitrary for bool {
    fn any() -> Self { next_bytes(1)[0] & 1 == 1 }
}
impl<T: Arbitrary, const N: usize> Arbitrary for [T; N] {
    fn any() -> Self { core::array::from_fn(|_| T::any()) }
}

pub fn any<T: Arbitrary>() -> T { T::any() }

pub fn assume(c: bool) {
    if !c {
        println!("REPLAY-DIVERGED: an assumption of the harness does not hold for the replayed values");
        // unwinding with a marker payload; the test harness reports it as a failure with this text,
        // which the driver recognises and does NOT count as a reproduction
        std::panic::panic_any(ReplayDiverged);
    }
}
pub struct ReplayDiverged;

#[macro_export]
macro_rules! cover {
    ($($t:tt)*) => {{}};
}
