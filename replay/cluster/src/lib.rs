//! Native replay crate for the "cluster" harnesses: ORIGINAL async election.rs and the sliced items of
//! worterbuch-cluster-orchestrator with the REAL tokio (a loopback UDP socket), serde, miette, tracing.
#![allow(dead_code, unused_imports, unused_variables, unused_mut, clippy::all)]
macro_rules! model_prelude {
    () => {};
}
macro_rules! csrc {
    ("lib_types.rs") => { include!("/verif/kani/cluster/gen_slices/lib_types.rs"); };
    ("config_items.rs") => { include!("/verif/kani/cluster/gen_slices/config_items.rs"); };
    ("election.rs") => { include!("/repo/worterbuch-cluster-orchestrator/src/election.rs"); };
}
pub fn block_on<F: core::future::Future>(f: F) -> F::Output {
    thread_local! {
        static RT: tokio::runtime::Runtime = tokio::runtime::Builder::new_current_thread().enable_all().build().unwrap();
    }
    RT.with(|rt| rt.block_on(f))
}
macro_rules! aw {
    ($e:expr) => { crate::block_on($e) };
}
pub type R<T> = core::future::Ready<T>;
pub fn ret<T>(t: T) -> core::future::Ready<T> {
    core::future::ready(t)
}
pub type PendingFut = core::future::Pending<()>;
pub fn pending_fut() -> PendingFut {
    core::future::pending()
}
pub fn mk_socket() -> tokio::net::UdpSocket {
    block_on(async { tokio::net::UdpSocket::bind("127.0.0.1:0").await.expect("loopback UDP socket") })
}
include!("/verif/kani/cluster/src/body.rs");
