#!/bin/bash
# usage: probe.sh <crate> <slot> <harness> [mem_gb] [timeout_s]   -> log in /verif/logs/probe-<harness>.log
crate=$1; slot=$2; h=$3; mem=${4:-12}; to=${5:-300}
cd /verif/kani/$crate; [ -f deasync.list ] && python3 /verif/gen/deasync.py gen $(cat deasync.list)
export CARGO_NET_OFFLINE=true
( ulimit -v $((mem*1024*1024)); /usr/bin/time -f "WALL %e s MAXRSS %M KB" timeout -k 5 $to cargo kani --target-dir /verif/target/$crate-$slot -Z unstable-options -Z stubbing --no-memory-safety-checks --no-assertion-reach-checks --harness $h --cbmc-args --unwindset memcmp.0:18 --max-field-sensitivity-array-size 1024 ) > /verif/logs/probe-$h.log 2>&1
grep -E "^Runtime Symex|VCC|^VERIFICATION|out of memory|Failed Checks|WALL|cover properties|of .* failed|^error" /verif/logs/probe-$h.log | head -12
