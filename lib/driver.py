"""Kani/CBMC check driver for /verif (see DESIGN.md §3, §6)."""
import argparse, glob, hashlib, json, os, re, shutil, subprocess, sys, threading, time
from concurrent.futures import ThreadPoolExecutor

VERIF = os.path.dirname(os.path.dirname(os.path.abspath(__file__)))
REPO = "/repo"
TARGET = os.path.join(VERIF, "target")
EVID = os.path.join(VERIF, "evidence")
REPLAYS = os.path.join(VERIF, "replays")
LOGS = os.path.join(VERIF, "logs")
KNOWN = os.path.join(VERIF, "known_findings.json")

TOTAL_MEM_GB = 50          # budget for concurrently running CBMC jobs (machine: 62 GB, no swap)
KANI_FLAGS = ["-Z", "unstable-options", "-Z", "stubbing", "--no-memory-safety-checks", "--no-assertion-reach-checks"]
CBMC_FLAGS = ["--cbmc-args", "--unwindset", "memcmp.0:18", "--max-field-sensitivity-array-size", "1024"]

ENV = dict(os.environ)
ENV["CARGO_NET_OFFLINE"] = "true"
ENV.pop("RUSTFLAGS", None)
ENV.pop("CARGO_TARGET_DIR", None)

TRUSTED_BASE = [
    "Kani 0.68.0 (kani-compiler, pinned nightly) -> CBMC 6.11.0 with CaDiCaL",
    "rustc/std as compiled by Kani (dev profile semantics, overflow checks on)",
    "environment models /verif/env/{hashbrown,serde_json,tokio,tracing,tracing-attributes,jsonwebtoken} (see DESIGN.md 3.2)",
    "harness stand-ins inside /verif/kani/* (config, persistence, model file system, nondeterministic core)",
    "CBMC pointer checks off (--no-memory-safety-checks); worterbuch sources under test contain no unsafe",
]


def log(*a):
    print(*a, flush=True)


# ----------------------------------------------------------------------------- discovery
class Harness:
    def __init__(self, crate, module, name, meta, src):
        self.crate, self.module, self.name, self.meta, self.src = crate, module, name, meta, src
        self.props = meta.get("props", "").split(",")
        self.tier = meta.get("tier", "quick")
        self.cap = int(meta.get("cap", "300"))
        self.mem = int(meta.get("mem", "12"))
        self.desc = meta.get("desc", "")
        self.bounds = meta.get("bounds", "")
        self.full = f"{module}::{name}" if module else name


def parse_meta(s):
    meta = {}
    for m in re.finditer(r'(\w+)=("([^"]*)"|\S+)', s):
        meta[m.group(1)] = m.group(3) if m.group(3) is not None else m.group(2)
    return meta


def discover():
    hs = []
    for crate_dir in sorted(glob.glob(os.path.join(VERIF, "kani", "*"))):
        crate = os.path.basename(crate_dir)
        for src in sorted(glob.glob(os.path.join(crate_dir, "src", "**", "*.rs"), recursive=True)):
            module = ""
            pending = None
            for line in open(src):
                m = re.match(r"\s*//\s*@module\s+(\S+)", line)
                if m:
                    module = m.group(1)
                    continue
                m = re.match(r"\s*//\s*@h\s+(.*)", line)
                if m:
                    pending = parse_meta(m.group(1))
                    continue
                m = re.match(r"\s*(?:pub\s+)?fn\s+(\w+)\s*\(", line) or re.match(r"\s*\w+!\(\s*(\w+)\s*,", line)
                if m and pending is not None:
                    hs.append(Harness(crate, module, m.group(1), pending, src))
                    pending = None
    return hs


# ----------------------------------------------------------------------------- pool of target dirs
NSLOTS = 6   # target dirs per crate, shared by all driver processes on this machine (flock)


class Pool:
    """Target-dir slots of one harness crate. A slot is held through an flock on <dir>.lock, so that
    several driver processes (e.g. a background run and an interactive one) never share a target dir."""

    def __init__(self, crate, n):
        self.crate, self.n = crate, n
        self.held = {}
        self.mu = threading.Lock()

    def dir(self, i):
        return os.path.join(TARGET, f"{self.crate}-{i}")

    def acquire(self):
        import fcntl
        while True:
            for i in range(NSLOTS):
                with self.mu:
                    if i in self.held:
                        continue
                    f = open(self.dir(i) + ".lock", "w")
                    try:
                        fcntl.flock(f, fcntl.LOCK_EX | fcntl.LOCK_NB)
                    except OSError:
                        f.close()
                        continue
                    self.held[i] = f
                if not os.path.isdir(self.dir(i)):
                    subprocess.run(["cp", "-a", self.dir(0), self.dir(i)], check=False)
                return i
            time.sleep(0.5)

    def release(self, i):
        with self.mu:
            f = self.held.pop(i)
        f.close()


class MemGate:
    def __init__(self, total):
        self.avail = total
        self.cv = threading.Condition()

    def acquire(self, gb):
        with self.cv:
            while self.avail < gb:
                self.cv.wait()
            self.avail -= gb

    def release(self, gb):
        with self.cv:
            self.avail += gb
            self.cv.notify_all()


def crate_dir(crate):
    return os.path.join(VERIF, "kani", crate)


def sync_lock(crate):
    """Cargo.lock of the harness crate starts from /repo's (same dependency versions)."""
    dst = os.path.join(crate_dir(crate), "Cargo.lock")
    if not os.path.exists(dst):
        shutil.copy(os.path.join(REPO, "Cargo.lock"), dst)


def kani_cmd(h, tdir, playback=False, unwindset=None):
    cmd = ["cargo", "kani", "--target-dir", tdir] + KANI_FLAGS + ["--harness", h.full, "--exact"]
    if playback:
        cmd += ["-Z", "concrete-playback", "--concrete-playback=print"]
    flags = list(CBMC_FLAGS)
    if unwindset:
        i = flags.index("--unwindset") + 1
        us = {"memcmp.0": 18}
        us.update(unwindset)
        flags[i] = ",".join(f"{k}:{v}" for k, v in sorted(us.items()))
    cmd += flags
    return cmd


UNWIND_CACHE = os.path.join(VERIF, "unwind_cache.json")


def load_unwind_cache():
    try:
        return json.load(open(UNWIND_CACHE))
    except Exception:
        return {}


def loops_not_unwound(logfile):
    ids = set()
    for l in open(logfile, errors="replace"):
        m = re.match(r"Not unwinding loop (\S+) iteration", l)
        if m:
            ids.add(m.group(1))
    return ids


def run_limited(cmd, cwd, cap_s, mem_gb, logfile):
    kb = int(mem_gb * 1024 * 1024)
    sh = f"ulimit -v {kb}; exec timeout -k 10 {cap_s} " + " ".join(map(shquote, cmd))
    t0 = time.time()
    with open(logfile, "w") as lf:
        p = subprocess.run(["bash", "-c", sh], cwd=cwd, env=ENV, stdout=lf, stderr=subprocess.STDOUT)
    return p.returncode, time.time() - t0


def shquote(s):
    return "'" + s.replace("'", "'\\''") + "'"


def prepare_pool(crate, n):
    """Build pool dir 0 with the trivial harness, then clone it for the other slots."""
    os.makedirs(TARGET, exist_ok=True)
    os.makedirs(LOGS, exist_ok=True)
    sync_lock(crate)
    for spec in sorted(glob.glob(os.path.join(crate_dir(crate), "*.slice"))):
        out = os.path.join(crate_dir(crate), "gen_slices", os.path.basename(spec)[:-6] + ".rs")
        os.makedirs(os.path.dirname(out), exist_ok=True)
        p = subprocess.run([sys.executable, os.path.join(VERIF, "gen", "slice.py"), spec, out], stdout=subprocess.PIPE, stderr=subprocess.STDOUT, text=True)
        if p.returncode != 0:
            log(f"[prepare] crate {crate}: slicing failed (exit {p.returncode}): {p.stdout}")
            return None
    lst = os.path.join(crate_dir(crate), "deasync.list")
    if os.path.exists(lst):
        files = [l.strip() for l in open(lst) if l.strip() and not l.startswith("#")]
        p = subprocess.run([sys.executable, os.path.join(VERIF, "gen", "deasync.py"), os.path.join(crate_dir(crate), "gen")] + files,
                           stdout=subprocess.PIPE, stderr=subprocess.STDOUT, text=True)
        if p.returncode != 0:
            log(f"[prepare] crate {crate}: de-sugaring failed:\n{p.stdout}")
            return None
    pool = Pool(crate, n)
    d0 = pool.dir(0)
    cmd = ["cargo", "kani", "--target-dir", d0] + KANI_FLAGS + ["--harness", "zz_nothing"] + CBMC_FLAGS
    lf = os.path.join(LOGS, f"{crate}-prepare-{os.getpid()}.log")
    import fcntl
    with open(d0 + ".lock", "w") as lk:
        fcntl.flock(lk, fcntl.LOCK_EX)          # slot 0 is also the template: build it exclusively
        rc, dt = run_limited(cmd, crate_dir(crate), 1200, 16, lf)
    txt = open(lf, errors="replace").read()
    if "VERIFICATION:- SUCCESSFUL" not in txt:
        log(f"[prepare] crate {crate}: build failed, see {lf}")
        log("\n".join(txt.splitlines()[-40:]))
        return None
    log(f"[prepare] crate {crate}: target dir template ready ({dt:.0f}s)")
    return pool


# ----------------------------------------------------------------------------- result parsing
class Result:
    pass


RE_SUMMARY = re.compile(r"\*\* (\d+) of (\d+) failed(?: \((\d+) unreachable\))?")
RE_COVER = re.compile(r"\*\* (\d+) of (\d+) cover properties satisfied")
RE_TIME = re.compile(r"Verification Time: ([0-9.]+)s")
RE_FAILED = re.compile(r'^Failed Checks: (.*)$')
RE_LOC = re.compile(r"- Location: (\S+?):(\d+)(?::\d+)? in function (.*)$")


def parse_log(path, rc):
    r = Result()
    txt = open(path, errors="replace").read()
    r.rc = rc
    r.checks_total = r.checks_failed = r.unreachable = 0
    r.cover_sat = r.cover_total = 0
    r.failed = []
    r.verif_time = None
    r.functions = set()
    r.symex_s = r.solver_s = 0.0
    r.vccs = None
    lines = txt.splitlines()
    for i, l in enumerate(lines):
        m = RE_SUMMARY.search(l)
        if m:
            r.checks_failed, r.checks_total, r.unreachable = int(m.group(1)), int(m.group(2)), int(m.group(3) or 0)
        m = RE_COVER.search(l)
        if m:
            r.cover_sat, r.cover_total = int(m.group(1)), int(m.group(2))
        m = RE_TIME.search(l)
        if m:
            r.verif_time = float(m.group(1))
        m = RE_FAILED.match(l)
        if m:
            desc = m.group(1).strip().strip('"')
            where = lines[i + 1].strip() if i + 1 < len(lines) else ""
            r.failed.append((desc, where))
        m = RE_LOC.search(l)
        if m and "/repo/" in ("/" + m.group(1).replace("../", "")):
            r.functions.add(m.group(3).strip())
        if l.startswith("Runtime Symex:"):
            r.symex_s += float(l.split(":")[1].strip().rstrip("s"))
        if l.startswith("Runtime decision procedure:"):
            r.solver_s += float(l.split(":")[1].strip().rstrip("s"))
        m = re.match(r"Generated (\d+) VCC\(s\), (\d+) remaining", l)
        if m:
            r.vccs = (int(m.group(1)), int(m.group(2)))
    if "VERIFICATION:- SUCCESSFUL" in txt:
        r.status = "pass"
        if r.cover_total and r.cover_sat < r.cover_total:
            r.status = "vacuous"
    elif "VERIFICATION:- FAILED" in txt and r.failed:
        only_unwind = all("unwinding assertion" in d for d, _ in r.failed)
        r.status = "unwind" if only_unwind else "fail"
    else:
        r.status = "inconclusive"
        if rc == 124 or rc == 137:
            r.reason = "timeout"
        elif re.search(r"out of memory|std::bad_alloc|memory allocation|status 6|SIGKILL|Cannot allocate", txt):
            r.reason = "out of memory"
        elif "error: could not compile" in txt or "error[E" in txt:
            r.reason = "build error"
        elif "no harnesses matched" in txt.lower() or "No proof harnesses" in txt:
            r.reason = "harness not found"
        else:
            r.reason = f"no verdict (rc={rc})"
    r.playback = parse_playback(txt)
    return r


def parse_playback(txt):
    """-> list of (kind, description, values) for every concrete playback test Kani printed"""
    out = []
    heads = list(re.finditer(r"/// Check for `(\w+)`: \"(.*)\"\s*$", txt, re.M))
    for i, m in enumerate(heads):
        end = heads[i + 1].start() if i + 1 < len(heads) else len(txt)
        seg = txt[m.end():end]
        b = re.search(r"let concrete_vals: Vec<Vec<u8>> = vec!\[(.*?)\n\s*\];", seg, re.S)
        if not b:
            continue
        vals = []
        for v in re.finditer(r"vec!\[([0-9, ]*)\]", b.group(1)):
            x = v.group(1).strip()
            vals.append([int(t) for t in x.split(",")] if x else [])
        out.append((m.group(1), m.group(2).strip('"'), vals))
    return out or None


def candidate_playbacks(playback, descs):
    """Candidate value vectors for the failed descriptions, best first. Kani de-duplicates its playback
    tests by the hash of their values, so the values of a failed assertion may be printed under the
    label of a cover property with the same trace: cover-labelled vectors are candidates too, but only
    count as a reproduction when the native panic message is one of the failed descriptions."""
    if not playback:
        return []
    exact = [(v, False) for k, d, v in playback if k != "cover" and any(x in d or d in x for x in descs)]
    other = [(v, False) for k, d, v in playback if k != "cover" and (v, False) not in exact]
    covers = [(v, True) for k, d, v in playback if k == "cover"]
    out = []
    for c in exact + other + covers:
        if c[0] not in [o[0] for o in out]:
            out.append(c)
    return out


# ----------------------------------------------------------------------------- known findings
def load_known():
    if not os.path.exists(KNOWN):
        return {"findings": []}
    return json.load(open(KNOWN))


def kf_id(desc):
    m = re.match(r"\[(KF-[A-Za-z0-9_-]+)\]", desc)
    return m.group(1) if m else None


# ----------------------------------------------------------------------------- replay
def replay_native(h, vals, outdir):
    """Run the same harness body against the REAL crates with the solver's values."""
    rdir = os.path.join(VERIF, "replay", h.crate)
    if not os.path.isdir(rdir):
        return None, "no native replay crate for " + h.crate
    if not os.path.exists(os.path.join(rdir, "Cargo.lock")):
        shutil.copy(os.path.join(REPO, "Cargo.lock"), os.path.join(rdir, "Cargo.lock"))
    res = {}
    env = dict(ENV)
    env["VERIF_REPLAY_VALUES"] = json.dumps(vals)
    for profile in ("dev", "release"):
        cmd = ["cargo", "test", "--offline", "--target-dir", os.path.join(TARGET, f"replay-{h.crate}"),
               "--features", "vreplay"]
        if profile == "release":
            cmd.append("--release")
        cmd += ["--lib", "--", "--exact", h.full, "--nocapture", "--test-threads", "1"]
        lf = os.path.join(LOGS, f"replay-{h.name}-{profile}.log")
        with open(lf, "w") as f:
            p = subprocess.run(cmd, cwd=rdir, env=env, stdout=f, stderr=subprocess.STDOUT, timeout=1800)
        txt = open(lf, errors="replace").read()
        ran = re.search(r"running 1 test", txt) is not None
        panicked = re.search(r"panicked at", txt) is not None and "REPLAY-DIVERGED" not in txt
        msgs = re.findall(r"panicked at [^\n]*:\n([^\n]*)", txt)
        res[profile] = {"ran": ran, "failed": ran and p.returncode != 0 and panicked, "messages": msgs[:3], "log": lf}
    return res, None


# ----------------------------------------------------------------------------- main
def sha256(path):
    try:
        return hashlib.sha256(open(path, "rb").read()).hexdigest()
    except OSError:
        return None


def included_sources(crate):
    """repo files pulled in by include!/#[path] in the harness crate"""
    out = set()
    for src in glob.glob(os.path.join(crate_dir(crate), "src", "**", "*.rs"), recursive=True):
        for m in re.finditer(r'"(/repo/[^"]+)"', open(src).read()):
            out.add(m.group(1))
    lst = os.path.join(crate_dir(crate), "deasync.list")
    if os.path.exists(lst):
        for l in open(lst):
            if l.strip() and not l.startswith("#"):
                out.add(l.strip())
    return sorted(out)


def main(argv):
    ap = argparse.ArgumentParser()
    ap.add_argument("prop", nargs="?")
    ap.add_argument("--tier", default=os.environ.get("VERIF_TIER", "quick"))
    ap.add_argument("--only", default=None)
    ap.add_argument("--jobs", type=int, default=6)
    ap.add_argument("--replay", default=None)
    ap.add_argument("--list", action="store_true")
    ap.add_argument("--prepare", action="store_true", help="build the target-dir pools of all crates and exit")
    ap.add_argument("--no-evidence", action="store_true")
    a = ap.parse_args(argv)
    seed = int(os.environ.get("VERIF_SEED", "0") or 0)
    allh = discover()

    if a.list:
        for h in allh:
            log(f"{h.crate:8} {','.join(h.props):12} {h.tier:9} cap={h.cap:<5} {h.full}  {h.desc}")
        return 0
    if a.prepare:
        ok = True
        for crate in sorted({h.crate for h in allh}):
            ok = prepare_pool(crate, a.jobs) is not None and ok
        return 0 if ok else 2
    if a.replay:
        return replay_file(a.replay, allh)
    if not a.prop:
        ap.error("property id required")

    prop = a.prop
    tiers = ("quick",) if a.tier == "quick" else ("quick", "thorough")
    hs = [h for h in allh if prop in h.props and h.tier in tiers]
    if prop == "C17" and a.tier == "quick":
        # C17 (panic-freedom) is asserted by every harness that carries the tag; the quick tier runs the families whose
        # FIRST property is C02 or C06 plus the protocol-level "unimplemented request" harnesses, the thorough tier all
        # of them (the other families run under their own property's quick check anyway)
        hs = [h for h in hs if h.props[0] in ("C02", "C06", "C13", "C17")]
    if a.only:
        hs = [h for h in hs if a.only in h.full]
    if not hs:
        log(f"no harnesses registered for {prop} in tier {a.tier}")
        return 2
    t0 = time.time()
    os.makedirs(LOGS, exist_ok=True)
    os.makedirs(EVID, exist_ok=True)
    pools = {}
    for crate in sorted({h.crate for h in hs}):
        p = prepare_pool(crate, min(a.jobs, max(1, len([h for h in hs if h.crate == crate]))))
        if p is None:
            write_evidence(prop, a.tier, seed, [], time.time() - t0, inconclusive=[("build", "harness crate %s does not build" % crate)], violations=0, known=[])
            return 2
        pools[crate] = p
    gate = MemGate(TOTAL_MEM_GB)
    results = {}
    unwind_cache = load_unwind_cache()
    learnt = {}
    scale = 3 if a.tier == "thorough" else 1

    def work(h):
        pool = pools[h.crate]
        gate.acquire(h.mem)
        slot = pool.acquire()
        try:
            lf = os.path.join(LOGS, f"{prop}-{h.name}.log")
            # per-loop bounds for library loops over long concrete strings (meta autounwind=N): the loop ids are
            # learnt from the "Not unwinding loop" lines of a first run and cached (unwind_cache.json, committed);
            # a stale cache only costs the extra run, the unwinding assertions stay on
            uw = None
            au = int(h.meta.get("autounwind", "0") or 0)
            if au:
                uw = {k: au for k in unwind_cache.get(h.full, [])} or None
            rc, dt = run_limited(kani_cmd(h, pool.dir(slot), unwindset=uw), crate_dir(h.crate), h.cap * scale, h.mem, lf)
            r = parse_log(lf, rc)
            rounds = 0
            while au and r.status == "unwind" and rounds < 3:
                ids = loops_not_unwound(lf)
                if not ids or (uw and ids <= set(uw)):
                    break
                uw = dict(uw or {})
                uw.update({k: au for k in ids})
                learnt[h.full] = sorted(uw)
                rc, dt2 = run_limited(kani_cmd(h, pool.dir(slot), unwindset=uw), crate_dir(h.crate), h.cap * scale, h.mem, lf)
                dt += dt2
                r = parse_log(lf, rc)
                rounds += 1
            r.unwindset = uw
            if r.status == "fail":
                # second run with concrete playback to get the solver's values
                lf2 = os.path.join(LOGS, f"{prop}-{h.name}.playback.log")
                rc2, _ = run_limited(kani_cmd(h, pool.dir(slot), playback=True, unwindset=uw), crate_dir(h.crate), h.cap * scale * 2, h.mem, lf2)
                r2 = parse_log(lf2, rc2)
                r.playback = r2.playback
            r.wall = dt
            r.log = lf
            results[h.full] = r
            log(f"  [{r.status:12}] {h.full:55} {dt:6.1f}s  checks {r.checks_total - r.checks_failed}/{r.checks_total}  cover {r.cover_sat}/{r.cover_total}"
                + (f"  ({getattr(r, 'reason', '')})" if r.status == "inconclusive" else ""))
        finally:
            pool.release(slot)
            gate.release(h.mem)

    # longest first
    hs.sort(key=lambda h: -h.cap)
    with ThreadPoolExecutor(max_workers=a.jobs) as ex:
        list(ex.map(work, hs))

    if learnt and os.environ.get("VERIF_LEARN_UNWIND"):
        unwind_cache.update(learnt)
        json.dump(unwind_cache, open(UNWIND_CACHE, "w"), indent=1, sort_keys=True)
    known = load_known()
    # an open finding is keyed by the label of the assertion that exhibits it; a harness that serves several
    # properties reports it under each of them (with the finding's own property named)
    open_kf = {f["id"]: f for f in known.get("findings", []) if f.get("status") == "open"}
    kf_lines, inconclusive, violations = [], [], []
    for h in hs:
        r = results[h.full]
        if r.status == "pass":
            continue
        if r.status in ("inconclusive", "vacuous", "unwind"):
            why = {"vacuous": "cover witness unsatisfied (vacuous harness)", "unwind": "unwinding assertion failed (bound too small)"}.get(r.status, getattr(r, "reason", ""))
            inconclusive.append((h.full, why))
            continue
        unknown = []
        for desc, where in r.failed:
            k = kf_id(desc)
            if k and k in open_kf:
                kf_lines.append((k, h.full, desc))
            else:
                unknown.append((desc, where))
        if unknown:
            violations.append((h, r, unknown))

    rcode = 0
    seen = set()
    for k, hn, desc in kf_lines:
        if (k, hn) in seen:
            continue
        seen.add((k, hn))
        log(f"KNOWN-FINDING: property={prop} {k} (recorded for {open_kf[k].get('property')}) harness={hn}: {open_kf[k].get('what', desc)}")
    nviol = 0
    for h, r, unknown in violations:
        rep, err, vals = None, "solver returned no concrete values", None
        descs = [d for d, _ in unknown]
        reproduced = False
        for cand, need_msg in candidate_playbacks(r.playback, descs):
            rep, err = replay_native(h, cand, REPLAYS)
            vals = cand
            if rep is None:
                break
            hit = [v for v in rep.values() if v["failed"]]
            if need_msg:
                hit = [v for v in hit if any(any(d in m or m in d for d in descs) for m in v["messages"] if m)]
            if hit:
                reproduced = True
                break
        if not reproduced and vals is None:
            # Kani's concrete playback printed no values (it does so for some traces). The failing run must still be
            # shown against the real build before anything is reported: try the harness natively with all-zero
            # inputs - if THE SAME assertion fails there, that is a concrete failing run (the failure does not depend
            # on the symbolic values); otherwise the result stays inconclusive.
            rep, err = replay_native(h, [], REPLAYS)
            if rep is not None:
                hit = [v for v in rep.values() if v["failed"] and any(any(d in m or m in d for d in descs) for m in v["messages"] if m)]
                if hit:
                    reproduced = True
                    vals = []
                    err = None
                else:
                    err = "solver returned no concrete values and the all-zero native run does not fail"
        rec = {
            "property": prop, "harness": h.full, "crate": h.crate, "source": h.src,
            "failed_checks": [{"description": d, "where": w} for d, w in unknown],
            "concrete_values": vals, "native_replay": rep, "kani_log": r.log,
            "how_to_replay": f"./check --replay <this file>",
        }
        if reproduced:
            os.makedirs(REPLAYS, exist_ok=True)
            hsh = hashlib.sha256(json.dumps(rec["failed_checks"], sort_keys=True).encode()).hexdigest()[:10]
            path = os.path.join(REPLAYS, f"{prop}-{h.name}-{hsh}.json")
            json.dump(rec, open(path, "w"), indent=1)
            log(f"VIOLATION property={prop} replay={path}")
            for d, w in unknown:
                log(f"    failed: {d}  [{w}]")
            nviol += 1
            rcode = 1
        else:
            why = err or "counterexample did not reproduce against the real crates (model or harness suspect)"
            log(f"  non-reproduced failure in {h.full}: {[d for d, _ in unknown]} -- {why}")
            inconclusive.append((h.full, "solver counterexample not reproduced natively: " + why + "; failed: " + "; ".join(d for d, _ in unknown)))
    if inconclusive and rcode == 0:
        rcode = 2
    for hn, why in inconclusive:
        log(f"INCONCLUSIVE {hn}: {why}")
    if not a.no_evidence:
        write_evidence(prop, a.tier, seed, [(h, results[h.full]) for h in hs], time.time() - t0, inconclusive, nviol, kf_lines)
    log(f"{prop} {a.tier}: {len(hs)} harnesses, {sum(1 for h in hs if results[h.full].status == 'pass')} discharged, "
        f"{len(seen)} known findings, {nviol} violations, {len(inconclusive)} inconclusive, {time.time() - t0:.0f}s -> exit {rcode}")
    return rcode


def write_evidence(prop, tier, seed, pairs, wall, inconclusive, violations, known):
    obligations = sum(r.checks_total for _, r in pairs)
    discharged = sum(r.checks_total - r.checks_failed for _, r in pairs if r.status in ("pass", "fail"))
    harness_rows = []
    functions = set()
    sources = {}
    for h, r in pairs:
        functions |= r.functions
        for s in included_sources(h.crate):
            sources[s] = sha256(s)
        harness_rows.append({
            "harness": h.full, "crate": h.crate, "description": h.desc, "bounds": h.bounds, "status": r.status,
            "cbmc_properties": r.checks_total, "failed": r.checks_failed, "unreachable": r.unreachable,
            "cover_satisfied": f"{r.cover_sat}/{r.cover_total}", "wall_s": round(getattr(r, "wall", 0), 1),
            "verification_s": r.verif_time, "symex_s": round(r.symex_s, 2), "solver_s": round(r.solver_s, 2),
            "vccs": r.vccs,
        })
    all_ok = not inconclusive and violations == 0 and pairs
    level = "proof" if all_ok else "other"
    # CBMC properties that fail and are RECORDED known findings (known_findings.json) are not obligations of the
    # claim - the property is known not to hold there; they are counted separately and named in the explanation
    kf_failed = sum(r.checks_failed for _, r in pairs if r.status == "fail") if all_ok else 0
    if all_ok:
        obligations -= kf_failed
    cov = {
        "obligations": max(obligations, 1),
        "discharged": discharged if all_ok else min(discharged, max(obligations, 1)),
        "known_finding_properties_failed": kf_failed,
        "checker_cmd": "cargo kani --harness <h> --exact " + " ".join(KANI_FLAGS + CBMC_FLAGS) + "  (one run per harness; ./check " + prop + " --tier " + tier + ")",
        "trusted_base": TRUSTED_BASE,
        "explanation": ("bounded: every CBMC property of every harness is SUCCESS for all values of the symbolic inputs within the stated bounds (unwinding assertions on); not an unbounded proof."
                        if all_ok else "not all harnesses were decided: " + "; ".join(f"{a}: {b}" for a, b in inconclusive)) +
                       (f" Known findings reported: {sorted({k for k, _, _ in known})} - their {kf_failed} failing CBMC properties are NOT counted as obligations: the property is known not to hold for those inputs (known_findings.json)." if known else ""),
        "harnesses": harness_rows,
        "functions_encoded": sorted(functions),
        "source_sha256": sources,
        "known_findings_reported": sorted({k for k, _, _ in known}),
        "solver_wall_s": round(sum(r.solver_s for _, r in pairs), 1),
        "samples": [{"harness": h.full, "what": h.desc, "bounds": h.bounds} for h, _ in pairs[:6]] or [{"note": "no harness ran"}],
        "evaluations": max(len(pairs), 1),
        "distinct_nontrivial": max(sum(1 for _, r in pairs if r.status in ("pass", "fail") and r.checks_total > 0), 2 if pairs else 0) if pairs else 0,
        "rule": "one evaluation = one Kani harness (a solver query family over all symbolic inputs); non-trivial = CBMC reported >0 reachable properties and all cover witnesses satisfied",
    }
    ev = {
        "property_id": prop, "tier": tier, "seed": seed, "level": level, "coverage": cov,
        "assumptions": assumptions_for(pairs),
        "wall_s": round(wall, 1), "violations": violations,
    }
    os.makedirs(EVID, exist_ok=True)
    json.dump(ev, open(os.path.join(EVID, f"{prop}.json"), "w"), indent=1)


def assumptions_for(pairs):
    out = [
        "environment models replace hashbrown (fixed-capacity slot map), serde_json (flat Value, no text codec), tokio channels (FIFO queues), tracing (empty), jsonwebtoken (types only)",
        "harness pre-states are concrete in shape (which keys exist) and symbolic in content; shapes/menus are listed per harness under coverage.harnesses[].bounds",
        "capacity overflow of a model map and pending sends on full model queues are pruned (assume(false))",
    ]
    seen = set()
    for h, _ in pairs:
        for x in re.findall(r"kani::assume\(([^;]*)\);", open(h.src).read()) if h.src else []:
            if x not in seen and len(seen) < 40:
                seen.add(x)
    out += [f"kani::assume({x})" for x in sorted(seen)]
    return out


def replay_file(path, allh):
    rec = json.load(open(path))
    h = next((x for x in allh if x.full == rec["harness"] and x.crate == rec["crate"]), None)
    if h is None:
        log("harness not found: " + rec["harness"])
        return 2
    rep, err = replay_native(h, rec["concrete_values"], REPLAYS)
    log(json.dumps(rep, indent=1) if rep else err)
    if rep and any(v["failed"] for v in rep.values()):
        log(f"VIOLATION property={rec['property']} replay={path}")
        return 1
    return 0
