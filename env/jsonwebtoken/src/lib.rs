//! Verification stand-in for jsonwebtoken: types only; every decode fails.
use serde::de::DeserializeOwned;
#[derive(Debug, Clone, Copy, PartialEq, Eq, Hash)]
pub enum Algorithm { HS256, HS384, HS512, ES256, ES384, RS256, RS384, RS512, PS256, PS384, PS512, EdDSA }
pub mod errors {
    #[derive(Debug, Clone, PartialEq, Eq)]
    pub struct Error;
    impl core::fmt::Display for Error {
        fn fmt(&self, f: &mut core::fmt::Formatter<'_>) -> core::fmt::Result { f.write_str("jwt(model) error") }
    }
    impl std::error::Error for Error {}
    pub type Result<T> = core::result::Result<T, Error>;
}
pub struct Header { pub alg: Algorithm }
pub struct DecodingKey;
impl DecodingKey {
    pub fn from_ec_pem(_: &[u8]) -> errors::Result<Self> { Err(errors::Error) }
    pub fn from_ed_pem(_: &[u8]) -> errors::Result<Self> { Err(errors::Error) }
    pub fn from_secret(_: &[u8]) -> Self { DecodingKey }
}
pub struct Validation;
impl Validation { pub fn new(_: Algorithm) -> Self { Validation } }
pub struct TokenData<T> { pub claims: T }
pub fn decode_header(_: &str) -> errors::Result<Header> { Err(errors::Error) }
pub fn decode<T: DeserializeOwned>(_: &str, _: &DecodingKey, _: &Validation) -> errors::Result<TokenData<T>> { Err(errors::Error) }
