//! Association-list model of the subset of hashbrown's API used by worterbuch.
use core::borrow::Borrow;
use core::fmt;

pub mod hash_map {
    pub use super::{Entry, HashMap, Keys, OccupiedEntry, VacantEntry, Values, Iter, IntoIter};
}
pub mod hash_set {
    pub use super::HashSet;
}

#[cfg(feature = "cap3")]
pub const CAP: usize = 3;
#[cfg(not(feature = "cap3"))]
pub const CAP: usize = 2;

#[cfg(feature = "cap3")]
fn empty_slots<K, V>() -> [Option<(K, V)>; CAP] { [None, None, None] }
#[cfg(not(feature = "cap3"))]
fn empty_slots<K, V>() -> [Option<(K, V)>; CAP] { [None, None] }
#[cfg(feature = "cap3")]
fn clone_slots<K: Clone, V: Clone>(s: &[Option<(K, V)>; CAP]) -> [Option<(K, V)>; CAP] { [s[0].clone(), s[1].clone(), s[2].clone()] }
#[cfg(not(feature = "cap3"))]
fn clone_slots<K: Clone, V: Clone>(s: &[Option<(K, V)>; CAP]) -> [Option<(K, V)>; CAP] { [s[0].clone(), s[1].clone()] }

pub struct HashMap<K, V> {
    // ManuallyDrop: dropping the model map leaks its slots on purpose, so that the
    // (recursive) drop glue of worterbuch's tree nodes stays shallow under CBMC.
    slots: core::mem::ManuallyDrop<Box<[Option<(K, V)>; CAP]>>,
    // key of an outstanding `VacantEntry`. It is parked here instead of travelling inside the `Entry`
    // enum: a `String` that was moved through a tagged enum (a union for CBMC) no longer compares
    // concretely, so lookups of a freshly inserted key would not fold (measured).
    // (wrapped in UnsafeCell so that its niche is hidden: otherwise `Option<HashMap>` would put its tag
    // into the capacity field of this string instead of the box pointer, which CBMC does not fold)
    pending: core::cell::UnsafeCell<Option<K>>,
}
unsafe impl<K: Sync, V: Sync> Sync for HashMap<K, V> {}

impl<K: Clone, V: Clone> Clone for HashMap<K, V> {
    fn clone(&self) -> Self {
        HashMap { slots: core::mem::ManuallyDrop::new(Box::new(clone_slots(&self.slots))), pending: core::cell::UnsafeCell::new(None) }
    }
}

impl<K, V> Default for HashMap<K, V> {
    fn default() -> Self {
        HashMap { slots: core::mem::ManuallyDrop::new(Box::new(empty_slots())), pending: core::cell::UnsafeCell::new(None) }
    }
}

/// (API that realistic changes of the code under verification may start to use: `collect()` into a map, `extend`,
/// `with_capacity` - same bounded semantics, capacity overflow is a pruned path as for `insert`)
impl<K: Eq, V> FromIterator<(K, V)> for HashMap<K, V> {
    fn from_iter<I: IntoIterator<Item = (K, V)>>(iter: I) -> Self {
        let mut m = HashMap::default();
        for (k, v) in iter {
            m.insert(k, v);
        }
        m
    }
}
impl<K: Eq, V> Extend<(K, V)> for HashMap<K, V> {
    fn extend<I: IntoIterator<Item = (K, V)>>(&mut self, iter: I) {
        for (k, v) in iter {
            self.insert(k, v);
        }
    }
}
impl<K: fmt::Debug, V: fmt::Debug> fmt::Debug for HashMap<K, V> {
    fn fmt(&self, f: &mut fmt::Formatter<'_>) -> fmt::Result {
        f.debug_map().entries(self.iter()).finish()
    }
}

impl<K: Eq, V: PartialEq> PartialEq for HashMap<K, V> {
    fn eq(&self, other: &Self) -> bool {
        self.len() == other.len() && self.iter().all(|(k, v)| other.get(k) == Some(v))
    }
}

/// Index-free iterator: one optional reference per slot, taken in slot order.
/// (A running index that survives an early `return` becomes a symbolic array index
/// into the heap slot array for CBMC, which is what made `Node::is_clean` explode.)
pub struct Iter<'a, K, V> {
    s0: Option<&'a (K, V)>,
    s1: Option<&'a (K, V)>,
    #[cfg(feature = "cap3")]
    s2: Option<&'a (K, V)>,
}
impl<'a, K, V> Iterator for Iter<'a, K, V> {
    type Item = (&'a K, &'a V);
    fn next(&mut self) -> Option<(&'a K, &'a V)> {
        if let Some(kv) = self.s0.take() {
            return Some((&kv.0, &kv.1));
        }
        if let Some(kv) = self.s1.take() {
            return Some((&kv.0, &kv.1));
        }
        #[cfg(feature = "cap3")]
        if let Some(kv) = self.s2.take() {
            return Some((&kv.0, &kv.1));
        }
        None
    }
}
pub struct Keys<'a, K, V> {
    inner: Iter<'a, K, V>,
}
impl<'a, K, V> Iterator for Keys<'a, K, V> {
    type Item = &'a K;
    fn next(&mut self) -> Option<&'a K> {
        self.inner.next().map(|(k, _)| k)
    }
}
pub struct Values<'a, K, V> {
    inner: Iter<'a, K, V>,
}
impl<'a, K, V> Iterator for Values<'a, K, V> {
    type Item = &'a V;
    fn next(&mut self) -> Option<&'a V> {
        self.inner.next().map(|(_, v)| v)
    }
}
pub struct IntoIter<K, V> {
    s0: Option<(K, V)>,
    s1: Option<(K, V)>,
    #[cfg(feature = "cap3")]
    s2: Option<(K, V)>,
}
impl<K, V> Iterator for IntoIter<K, V> {
    type Item = (K, V);
    fn next(&mut self) -> Option<(K, V)> {
        if let Some(kv) = self.s0.take() {
            return Some(kv);
        }
        if let Some(kv) = self.s1.take() {
            return Some(kv);
        }
        #[cfg(feature = "cap3")]
        if let Some(kv) = self.s2.take() {
            return Some(kv);
        }
        None
    }
}

#[repr(u8)]
pub enum Entry<'a, K, V> {
    Occupied(OccupiedEntry<'a, K, V>),
    Vacant(VacantEntry<'a, K, V>),
}
pub struct OccupiedEntry<'a, K, V> {
    map: &'a mut HashMap<K, V>,
    idx: usize,
}
pub struct VacantEntry<'a, K, V> {
    map: &'a mut HashMap<K, V>,
}
impl<'a, K, V> OccupiedEntry<'a, K, V> {
    pub fn into_mut(self) -> &'a mut V {
        match &mut self.map.slots[self.idx] {
            Some((_, v)) => v,
            None => unreachable!(),
        }
    }
}
fn capacity_exceeded() -> ! {
    #[cfg(kani)]
    kani::assume(false);
    panic!("hashbrown model: capacity {} exceeded", CAP)
}
impl<'a, K, V> VacantEntry<'a, K, V> {
    pub fn insert(self, value: V) -> &'a mut V {
        let mut i = 0;
        while i < CAP {
            if self.map.slots[i].is_none() {
                let key = match self.map.pending.get_mut().take() {
                    Some(k) => k,
                    None => unreachable!(),
                };
                self.map.slots[i] = Some((key, value));
                return match &mut self.map.slots[i] {
                    Some((_, v)) => v,
                    None => unreachable!(),
                };
            }
            i += 1;
        }
        capacity_exceeded()
    }
}
impl<'a, K, V> Entry<'a, K, V> {
    pub fn or_default(self) -> &'a mut V
    where
        V: Default,
    {
        match self {
            Entry::Occupied(e) => e.into_mut(),
            Entry::Vacant(e) => e.insert(V::default()),
        }
    }
}

impl<K, V> HashMap<K, V> {
    pub fn new() -> Self {
        Self::default()
    }
    /// model-only constructor: build a map from explicit slots (harness pre-states)
    pub fn with_capacity(_n: usize) -> Self {
        Self::default()
    }
    pub fn from_slots(slots: [Option<(K, V)>; CAP]) -> Self {
        HashMap { slots: core::mem::ManuallyDrop::new(Box::new(slots)), pending: core::cell::UnsafeCell::new(None) }
    }
    pub fn len(&self) -> usize {
        let mut n = 0;
        let mut i = 0;
        while i < CAP {
            if self.slots[i].is_some() {
                n += 1;
            }
            i += 1;
        }
        n
    }
    pub fn is_empty(&self) -> bool {
        self.len() == 0
    }
    pub fn iter(&self) -> Iter<'_, K, V> {
        Iter {
            s0: self.slots[0].as_ref(),
            s1: self.slots[1].as_ref(),
            #[cfg(feature = "cap3")]
            s2: self.slots[2].as_ref(),
        }
    }
    pub fn keys(&self) -> Keys<'_, K, V> {
        Keys { inner: self.iter() }
    }
    pub fn values(&self) -> Values<'_, K, V> {
        Values { inner: self.iter() }
    }
    pub fn retain<F: FnMut(&K, &mut V) -> bool>(&mut self, mut f: F) {
        let mut i = 0;
        while i < CAP {
            let keep = match &mut self.slots[i] {
                Some((k, v)) => f(k, v),
                None => true,
            };
            if !keep {
                // leak the removed entry: running its (recursive) drop glue on a heap slot whose
                // tag CBMC cannot fold is what exhausts memory; leaks are harmless in the model
                core::mem::forget(self.slots[i].take());
            }
            i += 1;
        }
    }
}

impl<K: Eq, V> HashMap<K, V> {
    fn find<Q: ?Sized + Eq>(&self, k: &Q) -> Option<usize>
    where
        K: Borrow<Q>,
    {
        let mut i = 0;
        while i < CAP {
            if let Some((key, _)) = &self.slots[i] {
                if key.borrow() == k {
                    return Some(i);
                }
            }
            i += 1;
        }
        None
    }
    pub fn get<Q: ?Sized + Eq>(&self, k: &Q) -> Option<&V>
    where
        K: Borrow<Q>,
    {
        match self.find(k) {
            Some(i) => self.slots[i].as_ref().map(|(_, v)| v),
            None => None,
        }
    }
    pub fn get_mut<Q: ?Sized + Eq>(&mut self, k: &Q) -> Option<&mut V>
    where
        K: Borrow<Q>,
    {
        match self.find(k) {
            Some(i) => self.slots[i].as_mut().map(|(_, v)| v),
            None => None,
        }
    }
    pub fn contains_key<Q: ?Sized + Eq>(&self, k: &Q) -> bool
    where
        K: Borrow<Q>,
    {
        self.find(k).is_some()
    }
    pub fn insert(&mut self, k: K, v: V) -> Option<V> {
        match self.entry(k) {
            Entry::Occupied(e) => Some(core::mem::replace(e.into_mut(), v)),
            Entry::Vacant(e) => {
                e.insert(v);
                None
            }
        }
    }
    pub fn remove<Q: ?Sized + Eq>(&mut self, k: &Q) -> Option<V>
    where
        K: Borrow<Q>,
    {
        match self.find(k) {
            Some(i) => self.slots[i].take().map(|(k, v)| {
                core::mem::forget(k);
                v
            }),
            None => None,
        }
    }
    pub fn entry(&mut self, key: K) -> Entry<'_, K, V> {
        match self.find(&key) {
            Some(idx) => {
                core::mem::forget(key);
                Entry::Occupied(OccupiedEntry { map: self, idx })
            }
            None => {
                *self.pending.get_mut() = Some(key);
                Entry::Vacant(VacantEntry { map: self })
            }
        }
    }
}

impl<'a, K, V> IntoIterator for &'a HashMap<K, V> {
    type Item = (&'a K, &'a V);
    type IntoIter = Iter<'a, K, V>;
    fn into_iter(self) -> Iter<'a, K, V> {
        self.iter()
    }
}
impl<K, V> IntoIterator for HashMap<K, V> {
    type Item = (K, V);
    type IntoIter = IntoIter<K, V>;
    fn into_iter(self) -> IntoIter<K, V> {
        let mut b = core::mem::ManuallyDrop::into_inner(self.slots);
        IntoIter {
            s0: b[0].take(),
            s1: b[1].take(),
            #[cfg(feature = "cap3")]
            s2: b[2].take(),
        }
    }
}

#[derive(Clone, Debug)]
pub struct HashSet<T> {
    items: Vec<T>,
}
impl<T> Default for HashSet<T> {
    fn default() -> Self {
        HashSet { items: Vec::new() }
    }
}
impl<T: Eq> HashSet<T> {
    pub fn new() -> Self {
        Self::default()
    }
    pub fn insert(&mut self, t: T) -> bool {
        if self.items.iter().any(|x| x == &t) {
            false
        } else {
            self.items.push(t);
            true
        }
    }
    pub fn contains(&self, t: &T) -> bool {
        self.items.iter().any(|x| x == t)
    }
    pub fn len(&self) -> usize {
        self.items.len()
    }
    pub fn is_empty(&self) -> bool {
        self.items.is_empty()
    }
}
impl<T: Eq> Extend<T> for HashSet<T> {
    fn extend<I: IntoIterator<Item = T>>(&mut self, iter: I) {
        for t in iter {
            self.insert(t);
        }
    }
}
impl<T> IntoIterator for HashSet<T> {
    type Item = T;
    type IntoIter = std::vec::IntoIter<T>;
    fn into_iter(self) -> Self::IntoIter {
        self.items.into_iter()
    }
}

#[cfg(feature = "serde")]
mod serde_impls {
    use super::HashMap;
    use core::fmt;
    use core::marker::PhantomData;
    use serde::de::{Deserialize, Deserializer, MapAccess, Visitor};
    use serde::ser::{Serialize, SerializeMap, Serializer};

    impl<K: Serialize, V: Serialize> Serialize for HashMap<K, V> {
        fn serialize<S: Serializer>(&self, s: S) -> Result<S::Ok, S::Error> {
            let mut m = s.serialize_map(Some(self.len()))?;
            for (k, v) in self.iter() {
                m.serialize_entry(k, v)?;
            }
            m.end()
        }
    }
    struct V_<K, V>(PhantomData<(K, V)>);
    impl<'de, K: Deserialize<'de> + Eq, V: Deserialize<'de>> Visitor<'de> for V_<K, V> {
        type Value = HashMap<K, V>;
        fn expecting(&self, f: &mut fmt::Formatter) -> fmt::Result {
            f.write_str("a map")
        }
        fn visit_map<A: MapAccess<'de>>(self, mut a: A) -> Result<Self::Value, A::Error> {
            let mut m = HashMap::new();
            while let Some((k, v)) = a.next_entry()? {
                m.insert(k, v);
            }
            Ok(m)
        }
    }
    impl<'de, K: Deserialize<'de> + Eq, V: Deserialize<'de>> Deserialize<'de> for HashMap<K, V> {
        fn deserialize<D: Deserializer<'de>>(d: D) -> Result<Self, D::Error> {
            d.deserialize_map(V_(PhantomData))
        }
    }
}
