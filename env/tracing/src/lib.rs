//! Verification stand-in for `tracing`: logging has empty bodies.
pub use tracing_attributes::instrument;

#[derive(Debug, Clone, Copy, PartialEq, Eq, PartialOrd, Ord, Hash)]
pub struct Level(u8);
impl Level {
    pub const ERROR: Level = Level(1);
    pub const WARN: Level = Level(2);
    pub const INFO: Level = Level(3);
    pub const DEBUG: Level = Level(4);
    pub const TRACE: Level = Level(5);
}

#[derive(Debug, Clone, Default)]
pub struct Span;
pub struct Entered;
impl Span {
    pub fn none() -> Span { Span }
    pub fn current() -> Span { Span }
    pub fn enter(&self) -> Entered { Entered }
    pub fn entered(self) -> Entered { Entered }
    pub fn in_scope<F: FnOnce() -> T, T>(&self, f: F) -> T { f() }
}
pub trait Instrument: Sized {
    fn instrument(self, _span: Span) -> Self { self }
    fn in_current_span(self) -> Self { self }
}
impl<T: Sized> Instrument for T {}

#[macro_export] macro_rules! trace { ($($t:tt)*) => {{}}; }
#[macro_export] macro_rules! debug { ($($t:tt)*) => {{}}; }
#[macro_export] macro_rules! info { ($($t:tt)*) => {{}}; }
#[macro_export] macro_rules! warn { ($($t:tt)*) => {{}}; }
#[macro_export] macro_rules! error { ($($t:tt)*) => {{}}; }
#[macro_export] macro_rules! span { ($($t:tt)*) => { $crate::Span }; }
#[macro_export] macro_rules! trace_span { ($($t:tt)*) => { $crate::Span }; }
#[macro_export] macro_rules! debug_span { ($($t:tt)*) => { $crate::Span }; }
#[macro_export] macro_rules! info_span { ($($t:tt)*) => { $crate::Span }; }
#[macro_export] macro_rules! warn_span { ($($t:tt)*) => { $crate::Span }; }
#[macro_export] macro_rules! error_span { ($($t:tt)*) => { $crate::Span }; }
