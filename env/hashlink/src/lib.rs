//! Verification model of hashlink::LinkedHashMap (subset used by worterbuch's aggregator):
//! an insertion-ordered association list.
pub struct LinkedHashMap<K, V> {
    items: Vec<(K, V)>,
}
impl<K, V> Default for LinkedHashMap<K, V> {
    fn default() -> Self {
        LinkedHashMap { items: Vec::new() }
    }
}
impl<K: Eq, V> LinkedHashMap<K, V> {
    pub fn new() -> Self {
        Self::default()
    }
    pub fn len(&self) -> usize {
        self.items.len()
    }
    pub fn is_empty(&self) -> bool {
        self.items.is_empty()
    }
    pub fn contains_key<Q: ?Sized + Eq>(&self, k: &Q) -> bool
    where
        K: core::borrow::Borrow<Q>,
    {
        let mut i = 0;
        while i < self.items.len() {
            if self.items[i].0.borrow() == k {
                return true;
            }
            i += 1;
        }
        false
    }
    /// insert; an existing key keeps its position? No: hashlink moves a re-inserted key to the back.
    pub fn insert(&mut self, k: K, v: V) -> Option<V> {
        let mut i = 0;
        while i < self.items.len() {
            if self.items[i].0 == k {
                let (_, old) = self.items.remove(i);
                self.items.push((k, v));
                return Some(old);
            }
            i += 1;
        }
        self.items.push((k, v));
        None
    }
    pub fn drain(&mut self) -> std::vec::IntoIter<(K, V)> {
        core::mem::take(&mut self.items).into_iter()
    }
    pub fn iter(&self) -> impl Iterator<Item = (&K, &V)> {
        self.items.iter().map(|(k, v)| (k, v))
    }
}
