//! Verification model of hashlink::LinkedHashMap (subset used by worterbuch's aggregator):
//! an insertion-ordered association list of at most CAP entries in literal slots (no Vec: a value that
//! travelled through a Vec's byte buffer is no longer concrete for CBMC - measured on `json!(value)` of a
//! drained entry, which then explored the Object/Array arms of the serializer until memory ran out).
//! More than CAP distinct keys: the path is pruned (`assume(false)`), stated as a bound of the harness.
pub const CAP: usize = 2;
pub struct LinkedHashMap<K, V> {
    s0: Option<(K, V)>,
    s1: Option<(K, V)>,
}
impl<K, V> Default for LinkedHashMap<K, V> {
    fn default() -> Self {
        LinkedHashMap { s0: None, s1: None }
    }
}
fn over_capacity() -> ! {
    #[cfg(kani)]
    kani::assume(false);
    panic!("hashlink model: more than CAP entries")
}
impl<K: Eq, V> LinkedHashMap<K, V> {
    pub fn new() -> Self {
        Self::default()
    }
    pub fn len(&self) -> usize {
        (self.s0.is_some() as usize) + (self.s1.is_some() as usize)
    }
    pub fn is_empty(&self) -> bool {
        self.s0.is_none()
    }
    pub fn contains_key<Q: ?Sized + Eq>(&self, k: &Q) -> bool
    where
        K: core::borrow::Borrow<Q>,
    {
        if let Some((k0, _)) = &self.s0 {
            if k0.borrow() == k {
                return true;
            }
        }
        if let Some((k1, _)) = &self.s1 {
            if k1.borrow() == k {
                return true;
            }
        }
        false
    }
    /// hashlink moves a re-inserted key to the back and returns the old value
    pub fn insert(&mut self, k: K, v: V) -> Option<V> {
        let in0 = matches!(&self.s0, Some((k0, _)) if *k0 == k);
        if in0 {
            let old = self.s0.take();
            self.s0 = self.s1.take();
            if self.s0.is_none() {
                self.s0 = Some((k, v));
            } else {
                self.s1 = Some((k, v));
            }
            return old.map(|(_, o)| o);
        }
        let in1 = matches!(&self.s1, Some((k1, _)) if *k1 == k);
        if in1 {
            let old = self.s1.take();
            self.s1 = Some((k, v));
            return old.map(|(_, o)| o);
        }
        if self.s0.is_none() {
            self.s0 = Some((k, v));
        } else if self.s1.is_none() {
            self.s1 = Some((k, v));
        } else {
            over_capacity()
        }
        None
    }
    pub fn drain(&mut self) -> Drain<K, V> {
        Drain { s0: self.s0.take(), s1: self.s1.take() }
    }
    pub fn iter(&self) -> impl Iterator<Item = (&K, &V)> {
        self.s0.iter().chain(self.s1.iter()).map(|(k, v)| (k, v))
    }
}
/// own iterator type (not `vec::IntoIter`, whose `.map(..).collect()` takes std's in-place specialisation)
pub struct Drain<K, V> {
    s0: Option<(K, V)>,
    s1: Option<(K, V)>,
}
impl<K, V> Iterator for Drain<K, V> {
    type Item = (K, V);
    fn next(&mut self) -> Option<(K, V)> {
        if let Some(kv) = self.s0.take() {
            return Some(kv);
        }
        self.s1.take()
    }
    fn size_hint(&self) -> (usize, Option<usize>) {
        let n = (self.s0.is_some() as usize) + (self.s1.is_some() as usize);
        (n, Some(n))
    }
}
