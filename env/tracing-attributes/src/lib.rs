//! Verification stand-in: `#[instrument(..)]` is the identity attribute.
use proc_macro::TokenStream;
#[proc_macro_attribute]
pub fn instrument(_attr: TokenStream, item: TokenStream) -> TokenStream {
    item
}
