//! Verification model of the part of tokio that worterbuch's core touches.
//! Channels are single-threaded FIFO queues whose handles never run destructors
//! that matter to the code under verification; everything that needs a runtime
//! (spawn, sleep, select!) is *not modelled* and panics if reached.
pub use tokio_macros_model::test;

/// Minimal executor of the model: polls once with a no-op waker; the model's futures never suspend
/// unless a queue is full / empty, which is a pruned path under Kani and a panic natively.
pub fn model_block_on<F: core::future::Future>(f: F) -> F::Output {
    let mut f = core::pin::pin!(f);
    let waker = core::task::Waker::noop();
    let mut cx = core::task::Context::from_waker(&waker);
    match f.as_mut().poll(&mut cx) {
        core::task::Poll::Ready(v) => v,
        core::task::Poll::Pending => {
            #[cfg(kani)]
            kani::assume(false);
            panic!("tokio model: future is pending (full/empty model queue)")
        }
    }
}

pub mod sync {
    pub mod mpsc {
        pub mod error {
            #[derive(PartialEq, Eq, Clone, Copy)]
            pub struct SendError<T>(pub T);
            impl<T> core::fmt::Debug for SendError<T> {
                fn fmt(&self, f: &mut core::fmt::Formatter<'_>) -> core::fmt::Result { f.write_str("SendError") }
            }
            impl<T> core::fmt::Display for SendError<T> {
                fn fmt(&self, f: &mut core::fmt::Formatter<'_>) -> core::fmt::Result { f.write_str("channel closed") }
            }
            impl<T> std::error::Error for SendError<T> {}
            #[derive(PartialEq, Eq, Clone, Copy)]
            pub enum TrySendError<T> { Full(T), Closed(T) }
            impl<T> core::fmt::Debug for TrySendError<T> {
                fn fmt(&self, f: &mut core::fmt::Formatter<'_>) -> core::fmt::Result { f.write_str("TrySendError") }
            }
            impl<T> core::fmt::Display for TrySendError<T> {
                fn fmt(&self, f: &mut core::fmt::Formatter<'_>) -> core::fmt::Result { f.write_str("try_send failed") }
            }
            impl<T> std::error::Error for TrySendError<T> {}
            #[derive(Debug, PartialEq, Eq, Clone, Copy)]
            pub enum TryRecvError { Empty, Disconnected }
        }
        /// Queue of the model channel: four literal slots and a length (no VecDeque: its lazy allocation and
        /// ring arithmetic under a symbolic "was anything sent?" guard is what exhausted memory). Shared by
        /// sender and receiver through a raw, intentionally leaked pointer (single-threaded by construction).
        pub const QCAP: usize = 4;
        struct Chan<T> { s0: Option<T>, s1: Option<T>, s2: Option<T>, s3: Option<T>, len: usize, cap: usize, rx_alive: bool, close_when_idle: bool }
        impl<T> Chan<T> {
            /// slot `len` is empty by the queue invariant: written WITHOUT dropping the old content (an
            /// assignment would run the drop glue of `Option<T>` on a heap value whose tag CBMC does not fold -
            /// for T = ServerMessage that is the drop glue of every variant, on every send)
            fn put(&mut self, t: T) {
                unsafe {
                    if self.len == 0 { core::ptr::write(&mut self.s0, Some(t)); } else if self.len == 1 { core::ptr::write(&mut self.s1, Some(t)); } else if self.len == 2 { core::ptr::write(&mut self.s2, Some(t)); } else { core::ptr::write(&mut self.s3, Some(t)); }
                }
                self.len += 1;
            }
        }
        pub struct Sender<T> { chan: *mut Chan<T> }
        pub struct Receiver<T> { chan: *mut Chan<T> }
        unsafe impl<T: Send> Send for Sender<T> {}
        unsafe impl<T: Send> Sync for Sender<T> {}
        unsafe impl<T: Send> Send for Receiver<T> {}
        impl<T> Clone for Sender<T> {
            fn clone(&self) -> Self { Sender { chan: self.chan } }
        }
        impl<T> core::fmt::Debug for Sender<T> {
            fn fmt(&self, f: &mut core::fmt::Formatter<'_>) -> core::fmt::Result { f.write_str("Sender") }
        }
        impl<T> core::fmt::Debug for Receiver<T> {
            fn fmt(&self, f: &mut core::fmt::Formatter<'_>) -> core::fmt::Result { f.write_str("Receiver") }
        }
        pub fn channel<T>(cap: usize) -> (Sender<T>, Receiver<T>) {
            let cap = if cap > QCAP { QCAP } else { cap };
            let c = Box::into_raw(Box::new(Chan { s0: None, s1: None, s2: None, s3: None, len: 0, cap, rx_alive: true, close_when_idle: false }));
            (Sender { chan: c }, Receiver { chan: c })
        }
        impl<T> Sender<T> {
            pub fn try_send(&self, t: T) -> Result<(), error::TrySendError<T>> {
                let c = unsafe { &mut *self.chan };
                if !c.rx_alive { return Err(error::TrySendError::Closed(t)); }
                if c.len >= c.cap { return Err(error::TrySendError::Full(t)); }
                c.put(t);
                Ok(())
            }
            /// Model: a send on a full queue never completes. The returned value is a `Future` (for code
            /// that `.await`s it) and has an inherent `now()` (for the de-sugared build, see
            /// /verif/gen/deasync.py, where `x.await` is written `x.now()`).
            pub fn send(&self, t: T) -> SendFut<'_, T> {
                SendFut { tx: self, t: Some(t) }
            }
            pub fn is_closed(&self) -> bool { unsafe { !(*self.chan).rx_alive } }
        }
        pub struct SendFut<'a, T> { tx: &'a Sender<T>, t: Option<T> }
        impl<'a, T> SendFut<'a, T> {
            pub fn now(self) -> Result<(), error::SendError<T>> {
                // flags first, the message is never wrapped into an intermediate Result (which CBMC would
                // not fold for a large enum T): with a live receiver the Err path is statically dead
                let SendFut { tx, t } = self;
                let t = match t { Some(t) => t, None => crate::never_completes() };
                let c = unsafe { &mut *tx.chan };
                if !c.rx_alive { return Err(error::SendError(t)); }
                if c.len >= c.cap {
                    core::mem::forget(t);
                    crate::never_completes()
                }
                c.put(t);
                Ok(())
            }
        }
        impl<'a, T> Unpin for SendFut<'a, T> {}
        impl<'a, T> core::future::Future for SendFut<'a, T> {
            type Output = Result<(), error::SendError<T>>;
            fn poll(mut self: core::pin::Pin<&mut Self>, _: &mut core::task::Context<'_>) -> core::task::Poll<Self::Output> {
                let t = self.t.take().expect("polled after completion");
                match self.tx.try_send(t) {
                    Ok(()) => core::task::Poll::Ready(Ok(())),
                    Err(error::TrySendError::Closed(t)) => core::task::Poll::Ready(Err(error::SendError(t))),
                    Err(error::TrySendError::Full(t)) => {
                        self.t = Some(t);
                        core::task::Poll::Pending
                    }
                }
            }
        }
        pub struct RecvFut<'a, T> { rx: &'a mut Receiver<T> }
        impl<'a, T> RecvFut<'a, T> {
            pub fn now(self) -> Option<T> {
                match self.rx.try_recv() { Ok(t) => Some(t), Err(_) => crate::never_completes() }
            }
        }
        impl<'a, T> crate::TryNow for RecvFut<'a, T> {
            type Out = Option<T>;
            fn try_now(&mut self, idle: bool) -> Option<Option<T>> {
                match self.rx.try_recv() {
                    Ok(t) => Some(Some(t)),
                    Err(_) => if idle && unsafe { (*self.rx.chan).close_when_idle } { Some(None) } else { None },
                }
            }
        }
        impl<'a, T> core::future::Future for RecvFut<'a, T> {
            type Output = Option<T>;
            fn poll(mut self: core::pin::Pin<&mut Self>, _: &mut core::task::Context<'_>) -> core::task::Poll<Self::Output> {
                match self.rx.try_recv() { Ok(t) => core::task::Poll::Ready(Some(t)), Err(_) => core::task::Poll::Pending }
            }
        }
        impl<T> Receiver<T> {
            pub fn try_recv(&mut self) -> Result<T, error::TryRecvError> {
                let c = unsafe { &mut *self.chan };
                if c.len == 0 { return Err(error::TryRecvError::Empty); }
                // moves without drop glue (see `put`)
                let head = unsafe {
                    let head = core::ptr::read(&c.s0);
                    core::ptr::write(&mut c.s0, core::ptr::read(&c.s1));
                    core::ptr::write(&mut c.s1, core::ptr::read(&c.s2));
                    core::ptr::write(&mut c.s2, core::ptr::read(&c.s3));
                    core::ptr::write(&mut c.s3, None);
                    head
                };
                c.len -= 1;
                match head { Some(t) => Ok(t), None => Err(error::TryRecvError::Empty) }
            }
            pub fn recv(&mut self) -> RecvFut<'_, T> {
                RecvFut { rx: self }
            }
            pub fn close(&mut self) { unsafe { (*self.chan).rx_alive = false; } }
            /// Model control: "all senders go away once the system is idle" - a `select!` that finds nothing ready
            /// and no timer task left sees this channel as closed (recv -> None). Lets a harness run a real
            /// `loop { select! {..} }` to quiescence and get control back.
            pub fn model_close_when_idle(&mut self) { unsafe { (*self.chan).close_when_idle = true; } }
            pub fn len(&self) -> usize { unsafe { (*self.chan).len } }
        }
    }
    pub mod oneshot {
        //! Model: one heap slot shared through raw, intentionally leaked pointers
        //! (no reference counting, no RefCell flags – single-threaded by construction).
        pub mod error {
            #[derive(Debug, PartialEq, Eq, Clone, Copy)]
            pub struct RecvError(pub(crate) ());
            impl core::fmt::Display for RecvError {
                fn fmt(&self, f: &mut core::fmt::Formatter<'_>) -> core::fmt::Result { f.write_str("channel closed") }
            }
            impl std::error::Error for RecvError {}
            #[derive(Debug, PartialEq, Eq, Clone, Copy)]
            pub enum TryRecvError { Empty, Closed }
        }
        struct Slot<T> { v: Option<T>, tx_dropped: bool, rx_dropped: bool }
        pub struct Sender<T> { s: *mut Slot<T> }
        pub struct Receiver<T> { s: *mut Slot<T> }
        unsafe impl<T: Send> Send for Sender<T> {}
        unsafe impl<T: Send> Sync for Sender<T> {}
        unsafe impl<T: Send> Send for Receiver<T> {}
        impl<T> core::fmt::Debug for Sender<T> {
            fn fmt(&self, f: &mut core::fmt::Formatter<'_>) -> core::fmt::Result { f.write_str("oneshot::Sender") }
        }
        impl<T> core::fmt::Debug for Receiver<T> {
            fn fmt(&self, f: &mut core::fmt::Formatter<'_>) -> core::fmt::Result { f.write_str("oneshot::Receiver") }
        }
        pub fn channel<T>() -> (Sender<T>, Receiver<T>) {
            let s = Box::into_raw(Box::new(Slot { v: None, tx_dropped: false, rx_dropped: false }));
            (Sender { s }, Receiver { s })
        }
        impl<T> Sender<T> {
            pub fn send(self, t: T) -> Result<(), T> {
                let s = unsafe { &mut *self.s };
                if s.rx_dropped { return Err(t); }
                s.v = Some(t);
                Ok(())
            }
        }
        impl<T> Drop for Sender<T> {
            fn drop(&mut self) { unsafe { (*self.s).tx_dropped = true; } }
        }
        impl<T> Drop for Receiver<T> {
            fn drop(&mut self) { unsafe { (*self.s).rx_dropped = true; } }
        }
        impl<T> Receiver<T> {
            pub fn try_recv(&mut self) -> Result<T, error::TryRecvError> {
                let s = unsafe { &mut *self.s };
                match s.v.take() {
                    Some(t) => Ok(t),
                    None => if s.tx_dropped { Err(error::TryRecvError::Closed) } else { Err(error::TryRecvError::Empty) },
                }
            }
        }
        impl<T> Receiver<T> {
            /// de-sugared `rx.await`
            pub fn now(mut self) -> Result<T, error::RecvError> {
                match self.try_recv() {
                    Ok(t) => Ok(t),
                    Err(error::TryRecvError::Closed) => Err(error::RecvError(())),
                    Err(error::TryRecvError::Empty) => crate::never_completes(),
                }
            }
        }
        impl<T> core::future::Future for Receiver<T> {
            type Output = Result<T, error::RecvError>;
            fn poll(mut self: core::pin::Pin<&mut Self>, _: &mut core::task::Context<'_>) -> core::task::Poll<Self::Output> {
                match self.try_recv() {
                    Ok(t) => core::task::Poll::Ready(Ok(t)),
                    Err(error::TryRecvError::Closed) => core::task::Poll::Ready(Err(error::RecvError(()))),
                    Err(error::TryRecvError::Empty) => core::task::Poll::Pending,
                }
            }
        }
    }
    pub mod broadcast {
        pub mod error {
            #[derive(Debug, PartialEq, Eq, Clone)]
            pub enum RecvError { Closed, Lagged(u64) }
            impl core::fmt::Display for RecvError {
                fn fmt(&self, f: &mut core::fmt::Formatter<'_>) -> core::fmt::Result { f.write_str("broadcast recv error") }
            }
            impl std::error::Error for RecvError {}
            #[derive(Debug, PartialEq, Eq, Clone)]
            pub struct SendError<T>(pub T);
            impl<T> core::fmt::Display for SendError<T> {
                fn fmt(&self, f: &mut core::fmt::Formatter<'_>) -> core::fmt::Result { f.write_str("broadcast send error") }
            }
            impl<T: core::fmt::Debug> std::error::Error for SendError<T> {}
        }
    }
}

pub mod time {
    pub use std::time::Duration;
    pub mod error {
        #[derive(Debug, PartialEq, Eq)]
        pub struct Elapsed(());
        impl core::fmt::Display for Elapsed {
            fn fmt(&self, f: &mut core::fmt::Formatter<'_>) -> core::fmt::Result { f.write_str("deadline has elapsed") }
        }
        impl std::error::Error for Elapsed {}
    }
    /// Model: the deadline never fires.
    pub async fn timeout<F: core::future::Future>(_: Duration, f: F) -> Result<F::Output, error::Elapsed> {
        Ok(f.await)
    }
    /// A spawned timer task is run by the harness when it decides that the timer fires, so the sleep
    /// itself takes no model time: ready at once, as a future and via `now()`.
    pub fn sleep(_: Duration) -> Sleep { Sleep }
    pub struct Sleep;
    impl Sleep { pub fn now(self) {} }
    impl core::future::Future for Sleep {
        type Output = ();
        fn poll(self: core::pin::Pin<&mut Self>, _: &mut core::task::Context<'_>) -> core::task::Poll<()> { core::task::Poll::Ready(()) }
    }
}

/// A future that is never ready (de-sugared `x.await` on it is a pruned path).
pub struct Pending;
impl Pending {
    pub fn now(self) {
        crate::never_completes()
    }
}
impl core::future::Future for Pending {
    type Output = ();
    fn poll(self: core::pin::Pin<&mut Self>, _: &mut core::task::Context<'_>) -> core::task::Poll<()> {
        core::task::Poll::Pending
    }
}

pub mod net {
    //! Model UDP socket: nothing ever arrives, everything sent is dropped (the harnesses feed decoded peer
    //! messages directly into the election code).
    use std::io;
    use std::net::SocketAddr;
    pub struct UdpSocket;
    pub struct RecvFut;
    impl RecvFut {
        pub fn now(self) -> io::Result<usize> {
            crate::never_completes()
        }
    }
    impl core::future::Future for RecvFut {
        type Output = io::Result<usize>;
        fn poll(self: core::pin::Pin<&mut Self>, _: &mut core::task::Context<'_>) -> core::task::Poll<Self::Output> {
            core::task::Poll::Pending
        }
    }
    pub struct SendToFut(usize);
    impl SendToFut {
        pub fn now(self) -> io::Result<usize> {
            Ok(self.0)
        }
    }
    impl core::future::Future for SendToFut {
        type Output = io::Result<usize>;
        fn poll(self: core::pin::Pin<&mut Self>, _: &mut core::task::Context<'_>) -> core::task::Poll<Self::Output> {
            core::task::Poll::Ready(Ok(self.0))
        }
    }
    impl UdpSocket {
        pub fn recv(&self, _buf: &mut [u8]) -> RecvFut {
            RecvFut
        }
        pub fn send_to(&self, buf: &[u8], _addr: SocketAddr) -> SendToFut {
            SendToFut(buf.len())
        }
    }
}

pub mod io {
    use std::io;
    pub trait AsyncRead {}
    pub trait AsyncWrite {
        fn model_write(&mut self, buf: &[u8]) -> io::Result<usize>;
        fn model_flush(&mut self) -> io::Result<()>;
    }
    impl<W: AsyncWrite + ?Sized> AsyncWrite for &mut W {
        fn model_write(&mut self, buf: &[u8]) -> io::Result<usize> { (**self).model_write(buf) }
        fn model_flush(&mut self) -> io::Result<()> { (**self).model_flush() }
    }
    pub trait AsyncWriteExt: AsyncWrite {
        fn write<'a>(&'a mut self, buf: &'a [u8]) -> impl core::future::Future<Output = io::Result<usize>> + 'a {
            async move { self.model_write(buf) }
        }
        fn flush(&mut self) -> impl core::future::Future<Output = io::Result<()>> + '_ {
            async move { self.model_flush() }
        }
    }
    impl<W: AsyncWrite + ?Sized> AsyncWriteExt for W {}
    pub struct BufReader<R> { _r: R }
    pub struct Lines<B> { _b: B }
    impl<R> Lines<BufReader<R>> {
        pub async fn next_line(&mut self) -> io::Result<Option<String>> { panic!("Lines::next_line is not modelled") }
    }
}

pub mod task {
    pub struct JoinHandle<T>(pub(crate) core::marker::PhantomData<T>);
}
/// "This operation never completes": under Kani the path is pruned, natively it is a loud failure.
pub fn never_completes() -> ! {
    #[cfg(kani)]
    kani::assume(false);
    panic!("tokio model: operation would block forever (full/empty model queue)")
}

/// `await` of the de-sugared build: `x.await` is written `x.now()`. Model futures have an inherent
/// `now()` that performs the operation directly; every other value (the result of a former `async fn`
/// of worterbuch, which after the de-sugaring is a plain function) is returned unchanged.
pub trait Now: Sized {
    fn now(self) -> Self {
        self
    }
}
impl<T> Now for T {}

/// de-sugared `async { .. }` that is awaited in place: `.now()` runs the block
pub struct LazyNow<F>(F);
pub fn lazy_now<R, F: FnOnce() -> R>(f: F) -> LazyNow<F> {
    LazyNow(f)
}
impl<R, F: FnOnce() -> R> LazyNow<F> {
    pub fn now(self) -> R {
        (self.0)()
    }
}

/// `spawn` registers the task; it runs only when the harness scheduler says so
/// (`model_tasks::run_next`). Tasks are plain closures after the de-sugaring.
pub mod model_tasks {
    /// The task closures take a dummy argument: CBMC resolves a virtual call (e.g. the drop of a
    /// `Box<dyn Error>` inside a WorterbuchError whose variant it could not fold) to EVERY address-taken function
    /// of a compatible signature; `call_once(self_ptr)` of a `dyn FnOnce()` is compatible with
    /// `drop_in_place(ptr)`, so every such drop executed every spawned task body (measured: 20 GB / no end).
    /// `call_once(self_ptr, Tok)` is not.
    #[derive(Clone, Copy)]
    pub struct Tok(pub u8, pub u8);
    static mut TASKS: [Option<Box<dyn FnOnce(Tok)>>; 4] = [None, None, None, None];
    static mut SPAWNED: usize = 0;
    pub fn register(f: Box<dyn FnOnce(Tok)>) {
        unsafe {
            let tasks = &mut *core::ptr::addr_of_mut!(TASKS);
            let mut i = 0;
            while i < 4 {
                if tasks[i].is_none() {
                    tasks[i] = Some(f);
                    SPAWNED += 1;
                    return;
                }
                i += 1;
            }
        }
        crate::never_completes()
    }
    /// number of tasks spawned so far
    pub fn spawned() -> usize {
        unsafe { SPAWNED }
    }
    /// number of registered tasks that have not run yet
    pub fn pending() -> usize {
        unsafe {
            let tasks = &*core::ptr::addr_of!(TASKS);
            let mut n = 0;
            let mut i = 0;
            while i < 4 {
                if tasks[i].is_some() {
                    n += 1;
                }
                i += 1;
            }
            n
        }
    }
    /// run the oldest pending task to completion; false if there is none
    pub fn run_next() -> bool {
        unsafe {
            let tasks = &mut *core::ptr::addr_of_mut!(TASKS);
            let mut i = 0;
            while i < 4 {
                if let Some(f) = tasks[i].take() {
                    f(Tok(0, 0));
                    return true;
                }
                i += 1;
            }
        }
        false
    }
}
pub fn spawn<F: FnOnce() -> R + 'static, R>(f: F) -> task::JoinHandle<R> {
    model_tasks::register(Box::new(move |_t: model_tasks::Tok| {
        f();
    }));
    task::JoinHandle(core::marker::PhantomData)
}

/// "Is this model future ready right now?" - what the model `select!` asks of its branches. `idle`: nothing in
/// the system is ready and no timer task is left (see `Receiver::model_close_when_idle`).
pub trait TryNow {
    type Out;
    fn try_now(&mut self, idle: bool) -> Option<Self::Out>;
}
impl TryNow for Pending {
    type Out = ();
    fn try_now(&mut self, _idle: bool) -> Option<()> { None }
}
impl TryNow for time::Sleep {
    type Out = ();
    fn try_now(&mut self, _idle: bool) -> Option<()> { Some(()) }
}
pub enum Sel2<A, B> { A(A), B(B) }
pub enum Sel3<A, B, C> { A(A), B(B), C(C) }
/// harness switch: branch order of the model `select!` (real tokio picks at random among the ready branches;
/// the model offers the two extreme schedules: first ready branch in source order, or in reverse order)
pub static mut SELECT_REVERSED: bool = false;
pub fn model_select_reversed(on: bool) { unsafe { SELECT_REVERSED = on } }
/// Model of a two-branch `select!`: a ready branch wins; if none is ready the oldest timer task runs ("time passes
/// only when everything is idle") and the branches are asked again; idle without timers: channels marked
/// close-when-idle report closed, otherwise the select never completes (pruned path).
pub fn model_select2<F1: TryNow, F2: TryNow>(f1: &mut F1, f2: &mut F2) -> Sel2<F1::Out, F2::Out> {
    let mut idle = false;
    loop {
        if unsafe { SELECT_REVERSED } {
            if let Some(v) = f2.try_now(idle) { return Sel2::B(v); }
            if let Some(v) = f1.try_now(idle) { return Sel2::A(v); }
        } else {
            if let Some(v) = f1.try_now(idle) { return Sel2::A(v); }
            if let Some(v) = f2.try_now(idle) { return Sel2::B(v); }
        }
        if idle { never_completes() }
        if !model_tasks::run_next() { idle = true; }
    }
}
#[macro_export]
macro_rules! select {
    // modelled shape: two branches that both wait on a model queue (`<receiver>.recv()`), e.g. the aggregator loop
    ($p1:pat = $r1:ident . recv ( ) => $b1:expr, $p2:pat = $r2:ident . recv ( ) => $b2:expr $(,)?) => {{
        let __sel = {
            let mut __f1 = $r1.recv();
            let mut __f2 = $r2.recv();
            $crate::model_select2(&mut __f1, &mut __f2)
        };
        match __sel {
            $crate::Sel2::A($p1) => $b1,
            $crate::Sel2::B($p2) => $b2,
        }
    }};
    // every other shape compiles but is not modelled (no harness may reach it)
    ($($t:tt)*) => { panic!("tokio::select! with this shape is not modelled") };
}
