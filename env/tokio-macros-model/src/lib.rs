//! `#[tokio::test] async fn name() { body }`  ->  `#[test] fn name() { tokio::model_block_on(async { body }) }`
use proc_macro::{Delimiter, TokenStream, TokenTree};

#[proc_macro_attribute]
pub fn test(_attr: TokenStream, item: TokenStream) -> TokenStream {
    let toks: Vec<TokenTree> = item.into_iter().collect();
    let mut name = None;
    let mut body = None;
    let mut attrs = String::new();
    let mut i = 0;
    while i < toks.len() {
        match &toks[i] {
            TokenTree::Ident(id) if id.to_string() == "fn" => {
                if let Some(TokenTree::Ident(n)) = toks.get(i + 1) {
                    name = Some(n.to_string());
                }
            }
            TokenTree::Group(g) if g.delimiter() == Delimiter::Brace => body = Some(g.stream().to_string()),
            TokenTree::Punct(p) if p.as_char() == '#' && name.is_none() => {
                if let Some(TokenTree::Group(g)) = toks.get(i + 1) {
                    attrs.push_str(&format!("#[{}] ", g.stream()));
                    i += 1;
                }
            }
            _ => {}
        }
        i += 1;
    }
    let name = name.expect("fn name");
    let body = body.expect("fn body");
    format!("{attrs} #[test] fn {name}() {{ ::tokio::model_block_on(async {{ {body} }}) }}").parse().unwrap()
}
