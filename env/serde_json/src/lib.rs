//! Verification model of the subset of serde_json used by worterbuch's core.
//!
//! `Value` is a *product* (tag + one field per kind), not a Rust enum, and has no layout niche:
//!   * with an enum `Value`, rustc packs the discriminants of `Value`, `ValueEntry`,
//!     `Option<ValueEntry>`, `Result<Option<Value>, _>` ... into niches of `Value`; Kani/CBMC then no
//!     longer constant-folds reads of those tags once a niche-encoded variant (`ValueEntry::Plain`)
//!     has been moved (measured: every lookup after `Store::delete` of a plain value unfolded);
//!   * `UnsafeCell` hides the niches of the string / vector payloads.
//! Conversions `to_value` / `from_value` go through real serde (`Serializer` / `Deserializer` for the
//! model `Value`). The JSON *text* codec is not modelled (`to_string`/`from_str` are a token codec used
//! only by the persistence harness, `from_slice` panics).
use core::cell::UnsafeCell;
use core::fmt;
use serde::de::{self, DeserializeOwned, Deserializer, Visitor};
use serde::ser::{self, Serialize, Serializer};

pub struct NoNiche<T>(UnsafeCell<T>);
unsafe impl<T: Sync> Sync for NoNiche<T> {}
impl<T> NoNiche<T> {
    pub const fn new(t: T) -> Self {
        NoNiche(UnsafeCell::new(t))
    }
    pub fn get(&self) -> &T {
        unsafe { &*self.0.get() }
    }
    pub fn into_inner(self) -> T {
        self.0.into_inner()
    }
    pub fn get_mut(&mut self) -> &mut T {
        self.0.get_mut()
    }
}

pub const T_NULL: u8 = 0;
pub const T_BOOL: u8 = 1;
pub const T_NUMBER: u8 = 2;
pub const T_STRING: u8 = 3;
pub const T_ARRAY: u8 = 4;
pub const T_OBJECT: u8 = 5;

/// A JSON value of the model: twelve single BYTES (tag, bool, arena index, little-endian number).
///
/// Why bytes: worterbuch stores values as `ValueEntry::{Cas(Value, u64), Plain(Value)}` - an enum with two
/// data-carrying variants, which Kani lowers to a union. For such a value sitting in heap memory CBMC only
/// constant-folds single-byte reads (measured: `u8` fields fold, `u16`/`u32`/`u64`/`Vec` fields of the very
/// same struct do not). So every field is a `u8`; numbers are reassembled from their bytes, and the payload
/// of strings / arrays / objects lives in a side arena addressed by a byte index. Values are immutable,
/// `Clone` is a copy of the twelve bytes (payload shared), nothing is ever freed.
#[derive(Clone, Copy)]
pub struct Value {
    tag: u8,
    b: u8,
    ix_lo: u8,
    ix_hi: u8,
    n: [u8; 8],
}

mod arena {
    use super::Value;
    pub const CAP: usize = 48;
    pub struct Arena {
        pub strs: [&'static str; CAP],
        pub n_strs: usize,
        pub arrs: [&'static [Value]; CAP],
        pub n_arrs: usize,
        pub objs: [&'static [(&'static str, Value)]; CAP],
        pub n_objs: usize,
    }
    impl Arena {
        pub const fn new() -> Arena {
            Arena { strs: [""; CAP], n_strs: 0, arrs: [&[]; CAP], n_arrs: 0, objs: [&[]; CAP], n_objs: 0 }
        }
    }
    #[cfg(kani)]
    static mut ARENA: Arena = Arena::new();
    #[cfg(kani)]
    pub fn with<R>(f: impl FnOnce(&mut Arena) -> R) -> R {
        unsafe { f(&mut *core::ptr::addr_of_mut!(ARENA)) }
    }
    // natively every test thread has its own arena
    #[cfg(not(kani))]
    thread_local! { static ARENA: core::cell::RefCell<Arena> = core::cell::RefCell::new(Arena::new()); }
    #[cfg(not(kani))]
    pub fn with<R>(f: impl FnOnce(&mut Arena) -> R) -> R {
        ARENA.with(|a| f(&mut a.borrow_mut()))
    }
    fn full() -> ! {
        #[cfg(kani)]
        kani::assume(false);
        panic!("serde_json model: value arena exhausted")
    }
    pub fn put_str(s: String) -> usize {
        let s: &'static str = Box::leak(s.into_boxed_str());
        with(|a| {
            if a.n_strs >= CAP {
                full()
            }
            a.strs[a.n_strs] = s;
            a.n_strs += 1;
            a.n_strs - 1
        })
    }
    pub fn put_arr(v: Vec<Value>) -> usize {
        let v: &'static [Value] = Box::leak(v.into_boxed_slice());
        with(|a| {
            if a.n_arrs >= CAP {
                full()
            }
            a.arrs[a.n_arrs] = v;
            a.n_arrs += 1;
            a.n_arrs - 1
        })
    }
    pub fn put_obj(v: Vec<(String, Value)>) -> usize {
        let v: Vec<(&'static str, Value)> = v.into_iter().map(|(k, x)| (&*Box::leak(k.into_boxed_str()), x)).collect();
        let v: &'static [(&'static str, Value)] = Box::leak(v.into_boxed_slice());
        with(|a| {
            if a.n_objs >= CAP {
                full()
            }
            a.objs[a.n_objs] = v;
            a.n_objs += 1;
            a.n_objs - 1
        })
    }
}

#[allow(non_snake_case, non_upper_case_globals)]
impl Value {
    const fn raw(tag: u8, b: u8, ix: usize, n: u64) -> Value {
        Value { tag, b, ix_lo: (ix & 0xff) as u8, ix_hi: ((ix >> 8) & 0xff) as u8, n: n.to_le_bytes() }
    }
    fn ix(&self) -> usize {
        (self.ix_lo as usize) | ((self.ix_hi as usize) << 8)
    }
    pub const Null: Value = Value::raw(T_NULL, 0, 0, 0);
    pub fn Bool(b: bool) -> Value {
        Value::raw(T_BOOL, b as u8, 0, 0)
    }
    pub fn Number(n: u64) -> Value {
        Value::raw(T_NUMBER, 0, 0, n)
    }
    pub fn String(s: String) -> Value {
        Value::raw(T_STRING, 0, arena::put_str(s), 0)
    }
    pub fn Array(a: Vec<Value>) -> Value {
        Value::raw(T_ARRAY, 0, arena::put_arr(a), 0)
    }
    pub fn Object(o: Vec<(String, Value)>) -> Value {
        Value::raw(T_OBJECT, 0, arena::put_obj(o), 0)
    }
    pub fn kind(&self) -> u8 {
        self.tag
    }
    /// fmt-free rendering (inherent, so that `value.to_string()` does not go through core::fmt); only the
    /// shape matters to the code under verification, not the exact JSON text (text codec is not modelled)
    pub fn to_string(&self) -> String {
        match self.tag {
            T_NULL => "null".to_owned(),
            T_BOOL => if self.b != 0 { "true".to_owned() } else { "false".to_owned() },
            T_STRING => {
                let mut o = String::with_capacity(16);
                o.push('"');
                o.push_str(self.as_str().unwrap_or(""));
                o.push('"');
                o
            }
            _ => "?".to_owned(),
        }
    }
    pub fn is_null(&self) -> bool {
        self.tag == T_NULL
    }
    pub fn as_bool(&self) -> Option<bool> {
        if self.tag == T_BOOL { Some(self.b != 0) } else { None }
    }
    pub fn as_u64(&self) -> Option<u64> {
        if self.tag == T_NUMBER { Some(u64::from_le_bytes(self.n)) } else { None }
    }
    pub fn as_str(&self) -> Option<&str> {
        if self.tag == T_STRING {
            let i = self.ix();
            Some(arena::with(|a| a.strs[i]))
        } else {
            None
        }
    }
    pub fn as_array(&self) -> Option<&[Value]> {
        if self.tag == T_ARRAY {
            let i = self.ix();
            Some(arena::with(|a| a.arrs[i]))
        } else {
            None
        }
    }
    pub fn as_object(&self) -> Option<&[(&'static str, Value)]> {
        if self.tag == T_OBJECT {
            let i = self.ix();
            Some(arena::with(|a| a.objs[i]))
        } else {
            None
        }
    }
}

impl PartialEq for Value {
    fn eq(&self, o: &Value) -> bool {
        if self.tag != o.tag {
            return false;
        }
        match self.tag {
            T_NULL => true,
            T_BOOL => self.b == o.b,
            T_NUMBER => self.n == o.n,
            T_STRING => self.as_str() == o.as_str(),
            T_ARRAY => self.as_array() == o.as_array(),
            T_OBJECT => self.as_object() == o.as_object(),
            _ => false,
        }
    }
}
impl Eq for Value {}

impl Default for Value {
    fn default() -> Self {
        Value::Null
    }
}

impl fmt::Debug for Value {
    fn fmt(&self, f: &mut fmt::Formatter<'_>) -> fmt::Result {
        fmt::Display::fmt(self, f)
    }
}
impl fmt::Display for Value {
    fn fmt(&self, f: &mut fmt::Formatter<'_>) -> fmt::Result {
        match self.tag {
            T_NULL => f.write_str("null"),
            T_BOOL => write!(f, "{}", self.b != 0),
            T_NUMBER => write!(f, "{}", u64::from_le_bytes(self.n)),
            T_STRING => write!(f, "\"{}\"", self.as_str().unwrap_or("")),
            _ => f.write_str("[..]"),
        }
    }
}

#[derive(Debug, Clone)]
pub struct Error;
pub type Result<T> = core::result::Result<T, Error>;
impl fmt::Display for Error {
    fn fmt(&self, f: &mut fmt::Formatter<'_>) -> fmt::Result {
        f.write_str("serde_json(model) error")
    }
}
impl std::error::Error for Error {}
impl ser::Error for Error {
    fn custom<T: fmt::Display>(_: T) -> Self {
        Error
    }
}
impl de::Error for Error {
    fn custom<T: fmt::Display>(_: T) -> Self {
        Error
    }
}

impl Serialize for Value {
    fn serialize<S: Serializer>(&self, s: S) -> core::result::Result<S::Ok, S::Error> {
        match self.tag {
            T_NULL => s.serialize_unit(),
            T_BOOL => s.serialize_bool(self.b != 0),
            T_NUMBER => s.serialize_u64(u64::from_le_bytes(self.n)),
            T_STRING => s.serialize_str(self.as_str().unwrap_or("")),
            T_ARRAY => {
                use ser::SerializeSeq;
                let v = self.as_array().unwrap_or(&[]);
                let mut q = s.serialize_seq(Some(v.len()))?;
                for e in v {
                    q.serialize_element(e)?;
                }
                q.end()
            }
            T_OBJECT => {
                use ser::SerializeMap;
                let v = self.as_object().unwrap_or(&[]);
                let mut q = s.serialize_map(Some(v.len()))?;
                for (k, e) in v {
                    q.serialize_entry(k, e)?;
                }
                q.end()
            }
            _ => Err(ser::Error::custom("bad tag")),
        }
    }
}

struct ValueVisitor;
impl<'de> Visitor<'de> for ValueVisitor {
    type Value = Value;
    fn expecting(&self, f: &mut fmt::Formatter) -> fmt::Result {
        f.write_str("a (modelled) JSON value")
    }
    fn visit_unit<E>(self) -> core::result::Result<Value, E> {
        Ok(Value::Null)
    }
    fn visit_none<E>(self) -> core::result::Result<Value, E> {
        Ok(Value::Null)
    }
    fn visit_some<D: Deserializer<'de>>(self, d: D) -> core::result::Result<Value, D::Error> {
        de::Deserialize::deserialize(d)
    }
    fn visit_bool<E>(self, b: bool) -> core::result::Result<Value, E> {
        Ok(Value::Bool(b))
    }
    fn visit_u64<E>(self, n: u64) -> core::result::Result<Value, E> {
        Ok(Value::Number(n))
    }
    fn visit_str<E>(self, s: &str) -> core::result::Result<Value, E> {
        Ok(Value::String(s.to_owned()))
    }
    fn visit_string<E>(self, s: String) -> core::result::Result<Value, E> {
        Ok(Value::String(s))
    }
        fn visit_seq<A: de::SeqAccess<'de>>(self, mut a: A) -> core::result::Result<Value, A::Error> {
        let mut v = Vec::new();
        while let Some(e) = a.next_element()? {
            v.push(e);
        }
        Ok(Value::Array(v))
    }
        fn visit_map<A: de::MapAccess<'de>>(self, mut a: A) -> core::result::Result<Value, A::Error> {
        let mut v = Vec::new();
        while let Some((k, e)) = a.next_entry::<String, Value>()? {
            v.push((k, e));
        }
        Ok(Value::Object(v))
    }
}
impl<'de> de::Deserialize<'de> for Value {
    fn deserialize<D: Deserializer<'de>>(d: D) -> core::result::Result<Value, D::Error> {
        d.deserialize_any(ValueVisitor)
    }
}

pub fn to_value<T: Serialize>(t: T) -> Result<Value> {
    t.serialize(value_ser::Ser)
}
pub fn from_value<T: DeserializeOwned>(v: Value) -> Result<T> {
    T::deserialize(value_de::De(v))
}

/// Token codec (NOT JSON): a deterministic, injective text encoding of the few data
/// shapes the persistence harness uses (small unsigned numbers, structs/sequences of them).
pub fn to_string<T: ?Sized + Serialize>(t: &T) -> Result<String> {
    let mut out = String::new();
    t.serialize(token::Ser { out: &mut out })?;
    Ok(out)
}
pub fn from_str<T: DeserializeOwned>(s: &str) -> Result<T> {
    let mut de = token::De { bytes: s.as_bytes(), pos: 0 };
    let t = T::deserialize(&mut de)?;
    if de.pos != s.len() {
        return Err(Error);
    }
    Ok(t)
}
pub fn to_vec<T: ?Sized + Serialize>(t: &T) -> Result<Vec<u8>> {
    to_string(t).map(String::into_bytes)
}
pub fn from_slice<T: DeserializeOwned>(_: &[u8]) -> Result<T> {
    panic!("serde_json::from_slice is not modelled")
}

/// Result of `json!({ "k": expr })` in the model: the token text of `expr` (the wrapping
/// object is dropped consistently on the encode side; harness stand-ins decode the bare text).
pub struct RawText(pub String);
impl RawText {
    /// fmt-free (inherent, so that `json!({..}).to_string()` does not go through core::fmt)
    pub fn to_string(&self) -> String {
        self.0.clone()
    }
}
impl fmt::Display for RawText {
    fn fmt(&self, f: &mut fmt::Formatter<'_>) -> fmt::Result {
        f.write_str(&self.0)
    }
}

#[macro_export]
macro_rules! json {
    (null) => { $crate::Value::Null };
    ({ $k:literal : $v:expr }) => { $crate::RawText($crate::to_string(&$v).unwrap()) };
    ($e:expr) => { $crate::to_value(&$e).unwrap() };
}

/// serde `Serializer` producing a model `Value`
mod value_ser {
    use super::{Error, Value};
    use serde::ser::{self, Impossible, Serialize};

    pub struct Ser;
        pub struct SeqSer(Vec<Value>);
        pub struct MapSer(Vec<(String, Value)>, Option<String>);
        pub struct VariantSer(&'static str, Vec<(String, Value)>);



        impl ser::SerializeSeq for SeqSer {
        type Ok = Value;
        type Error = Error;
        fn serialize_element<T: ?Sized + Serialize>(&mut self, v: &T) -> Result<(), Error> {
            self.0.push(v.serialize(Ser)?);
            Ok(())
        }
        fn end(self) -> Result<Value, Error> {
            Ok(Value::Array(self.0))
        }
    }
        impl ser::SerializeTuple for SeqSer {
        type Ok = Value;
        type Error = Error;
        fn serialize_element<T: ?Sized + Serialize>(&mut self, v: &T) -> Result<(), Error> {
            ser::SerializeSeq::serialize_element(self, v)
        }
        fn end(self) -> Result<Value, Error> {
            ser::SerializeSeq::end(self)
        }
    }
        impl ser::SerializeTupleStruct for SeqSer {
        type Ok = Value;
        type Error = Error;
        fn serialize_field<T: ?Sized + Serialize>(&mut self, v: &T) -> Result<(), Error> {
            ser::SerializeSeq::serialize_element(self, v)
        }
        fn end(self) -> Result<Value, Error> {
            ser::SerializeSeq::end(self)
        }
    }
        impl ser::SerializeMap for MapSer {
        type Ok = Value;
        type Error = Error;
        fn serialize_key<T: ?Sized + Serialize>(&mut self, k: &T) -> Result<(), Error> {
            let k = k.serialize(Ser)?;
            match k.as_str() {
                Some(s) => {
                    self.1 = Some(s.to_owned());
                    Ok(())
                }
                None => Err(Error),
            }
        }
        fn serialize_value<T: ?Sized + Serialize>(&mut self, v: &T) -> Result<(), Error> {
            let k = self.1.take().ok_or(Error)?;
            self.0.push((k, v.serialize(Ser)?));
            Ok(())
        }
        fn end(self) -> Result<Value, Error> {
            Ok(Value::Object(self.0))
        }
    }
        impl ser::SerializeStruct for MapSer {
        type Ok = Value;
        type Error = Error;
        fn serialize_field<T: ?Sized + Serialize>(&mut self, k: &'static str, v: &T) -> Result<(), Error> {
            self.0.push((k.to_owned(), v.serialize(Ser)?));
            Ok(())
        }
        fn end(self) -> Result<Value, Error> {
            Ok(Value::Object(self.0))
        }
    }
        impl ser::SerializeStructVariant for VariantSer {
        type Ok = Value;
        type Error = Error;
        fn serialize_field<T: ?Sized + Serialize>(&mut self, k: &'static str, v: &T) -> Result<(), Error> {
            self.1.push((k.to_owned(), v.serialize(Ser)?));
            Ok(())
        }
        fn end(self) -> Result<Value, Error> {
            Ok(Value::Object(vec![(self.0.to_owned(), Value::Object(self.1))]))
        }
    }
        impl ser::SerializeTupleVariant for VariantSer {
        type Ok = Value;
        type Error = Error;
        fn serialize_field<T: ?Sized + Serialize>(&mut self, v: &T) -> Result<(), Error> {
            self.1.push((String::new(), v.serialize(Ser)?));
            Ok(())
        }
        fn end(self) -> Result<Value, Error> {
            let arr: Vec<Value> = self.1.into_iter().map(|(_, v)| v).collect();
            Ok(Value::Object(vec![(self.0.to_owned(), Value::Array(arr))]))
        }
    }

    impl ser::Serializer for Ser {
        type Ok = Value;
        type Error = Error;
        type SerializeSeq = SeqSer;
        type SerializeTuple = SeqSer;
        type SerializeTupleStruct = SeqSer;
        type SerializeTupleVariant = VariantSer;
        type SerializeMap = MapSer;
        type SerializeStruct = MapSer;
        type SerializeStructVariant = VariantSer;
        fn serialize_bool(self, v: bool) -> Result<Value, Error> { Ok(Value::Bool(v)) }
        fn serialize_i8(self, v: i8) -> Result<Value, Error> { self.serialize_i64(v as i64) }
        fn serialize_i16(self, v: i16) -> Result<Value, Error> { self.serialize_i64(v as i64) }
        fn serialize_i32(self, v: i32) -> Result<Value, Error> { self.serialize_i64(v as i64) }
        fn serialize_i64(self, v: i64) -> Result<Value, Error> { if v >= 0 { Ok(Value::Number(v as u64)) } else { Err(Error) } }
        fn serialize_u8(self, v: u8) -> Result<Value, Error> { Ok(Value::Number(v as u64)) }
        fn serialize_u16(self, v: u16) -> Result<Value, Error> { Ok(Value::Number(v as u64)) }
        fn serialize_u32(self, v: u32) -> Result<Value, Error> { Ok(Value::Number(v as u64)) }
        fn serialize_u64(self, v: u64) -> Result<Value, Error> { Ok(Value::Number(v)) }
        fn serialize_f32(self, _: f32) -> Result<Value, Error> { Err(Error) }
        fn serialize_f64(self, _: f64) -> Result<Value, Error> { Err(Error) }
        fn serialize_char(self, c: char) -> Result<Value, Error> { Ok(Value::String(c.to_string())) }
        fn serialize_str(self, s: &str) -> Result<Value, Error> { Ok(Value::String(s.to_owned())) }
        fn serialize_bytes(self, _: &[u8]) -> Result<Value, Error> { Err(Error) }
        fn serialize_none(self) -> Result<Value, Error> { Ok(Value::Null) }
        fn serialize_some<T: ?Sized + Serialize>(self, v: &T) -> Result<Value, Error> { v.serialize(self) }
        fn serialize_unit(self) -> Result<Value, Error> { Ok(Value::Null) }
        fn serialize_unit_struct(self, _: &'static str) -> Result<Value, Error> { Ok(Value::Null) }
        fn serialize_unit_variant(self, _: &'static str, _: u32, variant: &'static str) -> Result<Value, Error> { Ok(Value::String(variant.to_owned())) }
        fn serialize_newtype_struct<T: ?Sized + Serialize>(self, _: &'static str, v: &T) -> Result<Value, Error> { v.serialize(self) }
                fn serialize_newtype_variant<T: ?Sized + Serialize>(self, _: &'static str, _: u32, variant: &'static str, v: &T) -> Result<Value, Error> {
            Ok(Value::Object(vec![(variant.to_owned(), v.serialize(Ser)?)]))
        }
                fn serialize_seq(self, _: Option<usize>) -> Result<SeqSer, Error> { Ok(SeqSer(Vec::new())) }
                fn serialize_tuple(self, _: usize) -> Result<SeqSer, Error> { Ok(SeqSer(Vec::new())) }
                fn serialize_tuple_struct(self, _: &'static str, _: usize) -> Result<SeqSer, Error> { Ok(SeqSer(Vec::new())) }
                fn serialize_tuple_variant(self, _: &'static str, _: u32, variant: &'static str, _: usize) -> Result<VariantSer, Error> { Ok(VariantSer(variant, Vec::new())) }
                fn serialize_map(self, _: Option<usize>) -> Result<MapSer, Error> { Ok(MapSer(Vec::new(), None)) }
                fn serialize_struct(self, _: &'static str, _: usize) -> Result<MapSer, Error> { Ok(MapSer(Vec::new(), None)) }
                fn serialize_struct_variant(self, _: &'static str, _: u32, variant: &'static str, _: usize) -> Result<VariantSer, Error> { Ok(VariantSer(variant, Vec::new())) }






    }
}

/// serde `Deserializer` consuming a model `Value`
mod value_de {
    use super::*;
    use serde::de::{DeserializeSeed, IntoDeserializer};

    pub struct De(pub Value);

    fn owned_object(v: &Value) -> Vec<(String, Value)> {
        let o = v.as_object().unwrap_or(&[]);
        let mut out = Vec::with_capacity(o.len());
        let mut i = 0;
        while i < o.len() {
            out.push((o[i].0.to_owned(), o[i].1));
            i += 1;
        }
        out
    }

        struct SeqDe(std::vec::IntoIter<Value>);
        impl<'de> de::SeqAccess<'de> for SeqDe {
        type Error = Error;
        fn next_element_seed<T: DeserializeSeed<'de>>(&mut self, seed: T) -> Result<Option<T::Value>> {
            match self.0.next() {
                Some(v) => seed.deserialize(De(v)).map(Some),
                None => Ok(None),
            }
        }
    }
        struct MapDe(std::vec::IntoIter<(String, Value)>, Option<Value>);
        impl<'de> de::MapAccess<'de> for MapDe {
        type Error = Error;
        fn next_key_seed<K: DeserializeSeed<'de>>(&mut self, seed: K) -> Result<Option<K::Value>> {
            match self.0.next() {
                Some((k, v)) => {
                    self.1 = Some(v);
                    seed.deserialize(De(Value::String(k))).map(Some)
                }
                None => Ok(None),
            }
        }
        fn next_value_seed<V: DeserializeSeed<'de>>(&mut self, seed: V) -> Result<V::Value> {
            match self.1.take() {
                Some(v) => seed.deserialize(De(v)),
                None => Err(Error),
            }
        }
    }
    struct EnumDe(String, Option<Value>);
    impl<'de> de::EnumAccess<'de> for EnumDe {
        type Error = Error;
        type Variant = VariantDe;
        fn variant_seed<V: DeserializeSeed<'de>>(self, seed: V) -> Result<(V::Value, VariantDe)> {
            let v = seed.deserialize(De(Value::String(self.0)))?;
            Ok((v, VariantDe(self.1)))
        }
    }
    struct VariantDe(Option<Value>);
    impl<'de> de::VariantAccess<'de> for VariantDe {
        type Error = Error;
        fn unit_variant(self) -> Result<()> {
            if self.0.is_none() { Ok(()) } else { Err(Error) }
        }
        fn newtype_variant_seed<T: DeserializeSeed<'de>>(self, seed: T) -> Result<T::Value> {
            match self.0 {
                Some(v) => seed.deserialize(De(v)),
                None => Err(Error),
            }
        }
        fn tuple_variant<V: Visitor<'de>>(self, _: usize, visitor: V) -> Result<V::Value> {
            match self.0 {
                Some(v) => de::Deserializer::deserialize_seq(De(v), visitor),
                None => Err(Error),
            }
        }
        fn struct_variant<V: Visitor<'de>>(self, _: &'static [&'static str], visitor: V) -> Result<V::Value> {
            match self.0 {
                Some(v) => de::Deserializer::deserialize_map(De(v), visitor),
                None => Err(Error),
            }
        }
    }

    impl<'de> de::Deserializer<'de> for De {
        type Error = Error;
        fn deserialize_any<V: Visitor<'de>>(self, visitor: V) -> Result<V::Value> {
            let v = self.0;
            match v.tag {
                T_NULL => visitor.visit_unit(),
                T_BOOL => visitor.visit_bool(v.b != 0),
                T_NUMBER => visitor.visit_u64(u64::from_le_bytes(v.n)),
                T_STRING => visitor.visit_string(v.as_str().unwrap_or("").to_owned()),
                T_ARRAY => visitor.visit_seq(SeqDe(v.as_array().unwrap_or(&[]).to_vec().into_iter())),
                T_OBJECT => visitor.visit_map(MapDe(owned_object(&v).into_iter(), None)),
                _ => Err(Error),
            }
        }
        fn deserialize_option<V: Visitor<'de>>(self, visitor: V) -> Result<V::Value> {
            if self.0.tag == T_NULL { visitor.visit_none() } else { visitor.visit_some(self) }
        }
        fn deserialize_newtype_struct<V: Visitor<'de>>(self, _: &'static str, visitor: V) -> Result<V::Value> {
            visitor.visit_newtype_struct(self)
        }
        fn deserialize_enum<V: Visitor<'de>>(self, _: &'static str, _: &'static [&'static str], visitor: V) -> Result<V::Value> {
            let v = self.0;
            match v.tag {
                T_STRING => visitor.visit_enum(EnumDe(v.as_str().unwrap_or("").to_owned(), None)),
                T_OBJECT => {
                    let mut o = owned_object(&v);
                    if o.len() != 1 {
                        return Err(Error);
                    }
                    let (k, val) = o.pop().unwrap();
                    visitor.visit_enum(EnumDe(k, Some(val)))
                }
                _ => Err(Error),
            }
        }
        serde::forward_to_deserialize_any! {
            bool i8 i16 i32 i64 i128 u8 u16 u32 u64 u128 f32 f64 char str string bytes byte_buf
            unit unit_struct seq tuple tuple_struct map struct identifier ignored_any
        }
    }
}

mod token {
    use super::Error;
    use serde::de::{self, DeserializeSeed, SeqAccess, Visitor};
    use serde::ser::{self, Impossible, Serialize};

    pub struct Ser<'a> {
        pub out: &'a mut String,
    }
    pub struct Compound<'a> {
        out: &'a mut String,
    }
    impl<'a> ser::SerializeStruct for Compound<'a> {
        type Ok = ();
        type Error = Error;
        fn serialize_field<T: ?Sized + Serialize>(&mut self, _k: &'static str, v: &T) -> Result<(), Error> {
            v.serialize(Ser { out: self.out })
        }
        fn end(self) -> Result<(), Error> {
            self.out.push('}');
            Ok(())
        }
    }
    impl<'a> ser::SerializeSeq for Compound<'a> {
        type Ok = ();
        type Error = Error;
        fn serialize_element<T: ?Sized + Serialize>(&mut self, v: &T) -> Result<(), Error> {
            self.out.push(',');
            v.serialize(Ser { out: self.out })
        }
        fn end(self) -> Result<(), Error> {
            self.out.push(']');
            Ok(())
        }
    }
    impl<'a> ser::Serializer for Ser<'a> {
        type Ok = ();
        type Error = Error;
        type SerializeSeq = Compound<'a>;
        type SerializeTuple = Impossible<(), Error>;
        type SerializeTupleStruct = Impossible<(), Error>;
        type SerializeTupleVariant = Impossible<(), Error>;
        type SerializeMap = Impossible<(), Error>;
        type SerializeStruct = Compound<'a>;
        type SerializeStructVariant = Impossible<(), Error>;
        fn serialize_bool(self, v: bool) -> Result<(), Error> { self.out.push(if v { 't' } else { 'f' }); Ok(()) }
        fn serialize_i8(self, _: i8) -> Result<(), Error> { Err(Error) }
        fn serialize_i16(self, _: i16) -> Result<(), Error> { Err(Error) }
        fn serialize_i32(self, _: i32) -> Result<(), Error> { Err(Error) }
        fn serialize_i64(self, _: i64) -> Result<(), Error> { Err(Error) }
        fn serialize_u8(self, v: u8) -> Result<(), Error> { self.serialize_u64(v as u64) }
        fn serialize_u16(self, v: u16) -> Result<(), Error> { self.serialize_u64(v as u64) }
        fn serialize_u32(self, v: u32) -> Result<(), Error> { self.serialize_u64(v as u64) }
        fn serialize_u64(self, v: u64) -> Result<(), Error> {
            if v >= 10 { return Err(Error); }
            self.out.push((b'0' + v as u8) as char);
            Ok(())
        }
        fn serialize_f32(self, _: f32) -> Result<(), Error> { Err(Error) }
        fn serialize_f64(self, _: f64) -> Result<(), Error> { Err(Error) }
        fn serialize_char(self, _: char) -> Result<(), Error> { Err(Error) }
        fn serialize_str(self, _: &str) -> Result<(), Error> { Err(Error) }
        fn serialize_bytes(self, _: &[u8]) -> Result<(), Error> { Err(Error) }
        fn serialize_none(self) -> Result<(), Error> { self.out.push('n'); Ok(()) }
        fn serialize_some<T: ?Sized + Serialize>(self, v: &T) -> Result<(), Error> { self.out.push('s'); v.serialize(self) }
        fn serialize_unit(self) -> Result<(), Error> { self.out.push('n'); Ok(()) }
        fn serialize_unit_struct(self, _: &'static str) -> Result<(), Error> { self.out.push('n'); Ok(()) }
        fn serialize_unit_variant(self, _: &'static str, _: u32, _: &'static str) -> Result<(), Error> { Err(Error) }
        fn serialize_newtype_struct<T: ?Sized + Serialize>(self, _: &'static str, v: &T) -> Result<(), Error> { v.serialize(self) }
        fn serialize_newtype_variant<T: ?Sized + Serialize>(self, _: &'static str, _: u32, _: &'static str, _: &T) -> Result<(), Error> { Err(Error) }
        fn serialize_seq(self, _: Option<usize>) -> Result<Compound<'a>, Error> { self.out.push('['); Ok(Compound { out: self.out }) }
        fn serialize_tuple(self, _: usize) -> Result<Self::SerializeTuple, Error> { Err(Error) }
        fn serialize_tuple_struct(self, _: &'static str, _: usize) -> Result<Self::SerializeTupleStruct, Error> { Err(Error) }
        fn serialize_tuple_variant(self, _: &'static str, _: u32, _: &'static str, _: usize) -> Result<Self::SerializeTupleVariant, Error> { Err(Error) }
        fn serialize_map(self, _: Option<usize>) -> Result<Self::SerializeMap, Error> { Err(Error) }
        fn serialize_struct(self, _: &'static str, _: usize) -> Result<Compound<'a>, Error> { self.out.push('{'); Ok(Compound { out: self.out }) }
        fn serialize_struct_variant(self, _: &'static str, _: u32, _: &'static str, _: usize) -> Result<Self::SerializeStructVariant, Error> { Err(Error) }
    }

    pub struct De<'de> {
        pub bytes: &'de [u8],
        pub pos: usize,
    }
    impl<'de> De<'de> {
        fn peek(&self) -> Option<u8> { if self.pos < self.bytes.len() { Some(self.bytes[self.pos]) } else { None } }
        fn next(&mut self) -> Option<u8> { let b = self.peek(); if b.is_some() { self.pos += 1; } b }
    }
    struct Fields<'a, 'de> { de: &'a mut De<'de>, close: u8, sep: bool }
    impl<'a, 'de> SeqAccess<'de> for Fields<'a, 'de> {
        type Error = Error;
        fn next_element_seed<T: DeserializeSeed<'de>>(&mut self, seed: T) -> Result<Option<T::Value>, Error> {
            match self.de.peek() {
                Some(b) if b == self.close => Ok(None),
                Some(b) => {
                    if self.sep { if b != b',' { return Err(Error); } self.de.pos += 1; }
                    seed.deserialize(&mut *self.de).map(Some)
                }
                None => Err(Error),
            }
        }
    }
    impl<'a, 'de> de::Deserializer<'de> for &'a mut De<'de> {
        type Error = Error;
        fn deserialize_any<V: Visitor<'de>>(self, visitor: V) -> Result<V::Value, Error> {
            match self.peek() {
                Some(b'0'..=b'9') => { let b = self.next().unwrap(); visitor.visit_u64((b - b'0') as u64) }
                Some(b't') => { self.pos += 1; visitor.visit_bool(true) }
                Some(b'f') => { self.pos += 1; visitor.visit_bool(false) }
                Some(b'n') => { self.pos += 1; visitor.visit_unit() }
                Some(b'[') => {
                    self.pos += 1;
                    let v = visitor.visit_seq(Fields { de: &mut *self, close: b']', sep: true })?;
                    if self.next() != Some(b']') { return Err(Error); }
                    Ok(v)
                }
                Some(b'{') => {
                    self.pos += 1;
                    let v = visitor.visit_seq(Fields { de: &mut *self, close: b'}', sep: false })?;
                    if self.next() != Some(b'}') { return Err(Error); }
                    Ok(v)
                }
                _ => Err(Error),
            }
        }
        fn deserialize_newtype_struct<V: Visitor<'de>>(self, _: &'static str, visitor: V) -> Result<V::Value, Error> {
            visitor.visit_newtype_struct(self)
        }
        fn deserialize_option<V: Visitor<'de>>(self, visitor: V) -> Result<V::Value, Error> {
            match self.peek() {
                Some(b'n') => { self.pos += 1; visitor.visit_none() }
                Some(b's') => { self.pos += 1; visitor.visit_some(self) }
                _ => Err(Error),
            }
        }
        serde::forward_to_deserialize_any! {
            bool i8 i16 i32 i64 i128 u8 u16 u32 u64 u128 f32 f64 char str string bytes byte_buf
            unit unit_struct seq tuple tuple_struct map struct enum identifier ignored_any
        }
    }
}
