//! Verification model of the subset of serde_json used by worterbuch's core:
//! a cheap `Value` (no BTreeMap), value<->T conversion through serde, and
//! text (de)serialisation entry points that are *not modelled* (they panic).
use core::fmt;
use serde::de::{self, DeserializeOwned, Deserializer, Visitor};
use serde::ser::{self, Serialize, Serializer};

#[derive(Clone, Debug, PartialEq, Eq, Hash)]
pub enum Value {
    Null,
    Bool(bool),
    Number(u64),
    String(String),
    #[cfg(feature = "nested")]
    Array(Vec<Value>),
}

impl Default for Value {
    fn default() -> Self {
        Value::Null
    }
}

impl fmt::Display for Value {
    fn fmt(&self, f: &mut fmt::Formatter<'_>) -> fmt::Result {
        match self {
            Value::Null => f.write_str("null"),
            Value::Bool(b) => write!(f, "{b}"),
            Value::Number(n) => write!(f, "{n}"),
            Value::String(s) => write!(f, "\"{s}\""),
            #[cfg(feature = "nested")]
            Value::Array(_) => f.write_str("[..]"),
        }
    }
}

#[derive(Debug, Clone)]
pub struct Error;
pub type Result<T> = core::result::Result<T, Error>;
impl fmt::Display for Error {
    fn fmt(&self, f: &mut fmt::Formatter<'_>) -> fmt::Result {
        f.write_str("serde_json(model) error")
    }
}
impl std::error::Error for Error {}
impl ser::Error for Error {
    fn custom<T: fmt::Display>(_: T) -> Self {
        Error
    }
}
impl de::Error for Error {
    fn custom<T: fmt::Display>(_: T) -> Self {
        Error
    }
}

impl Serialize for Value {
    fn serialize<S: Serializer>(&self, s: S) -> core::result::Result<S::Ok, S::Error> {
        match self {
            Value::Null => s.serialize_unit(),
            Value::Bool(b) => s.serialize_bool(*b),
            Value::Number(n) => s.serialize_u64(*n),
            Value::String(x) => s.serialize_str(x),
            #[cfg(feature = "nested")]
            Value::Array(v) => {
                use ser::SerializeSeq;
                let mut q = s.serialize_seq(Some(v.len()))?;
                for e in v {
                    q.serialize_element(e)?;
                }
                q.end()
            }
        }
    }
}

struct ValueVisitor;
impl<'de> Visitor<'de> for ValueVisitor {
    type Value = Value;
    fn expecting(&self, f: &mut fmt::Formatter) -> fmt::Result {
        f.write_str("a (modelled) JSON value")
    }
    fn visit_unit<E>(self) -> core::result::Result<Value, E> {
        Ok(Value::Null)
    }
    fn visit_none<E>(self) -> core::result::Result<Value, E> {
        Ok(Value::Null)
    }
    fn visit_bool<E>(self, b: bool) -> core::result::Result<Value, E> {
        Ok(Value::Bool(b))
    }
    fn visit_u64<E>(self, n: u64) -> core::result::Result<Value, E> {
        Ok(Value::Number(n))
    }
    fn visit_str<E>(self, s: &str) -> core::result::Result<Value, E> {
        Ok(Value::String(s.to_owned()))
    }
    fn visit_string<E>(self, s: String) -> core::result::Result<Value, E> {
        Ok(Value::String(s))
    }
    #[cfg(feature = "nested")]
    fn visit_seq<A: de::SeqAccess<'de>>(self, mut a: A) -> core::result::Result<Value, A::Error> {
        let mut v = Vec::new();
        while let Some(e) = a.next_element()? {
            v.push(e);
        }
        Ok(Value::Array(v))
    }
}
impl<'de> de::Deserialize<'de> for Value {
    fn deserialize<D: Deserializer<'de>>(d: D) -> core::result::Result<Value, D::Error> {
        d.deserialize_any(ValueVisitor)
    }
}

/// Token codec (NOT JSON): a deterministic, injective text encoding of the few data
/// shapes the persistence harness uses (small unsigned numbers, structs/sequences of them).
pub fn to_string<T: ?Sized + Serialize>(t: &T) -> Result<String> {
    let mut out = String::new();
    t.serialize(token::Ser { out: &mut out })?;
    Ok(out)
}
pub fn from_str<T: DeserializeOwned>(s: &str) -> Result<T> {
    let mut de = token::De { bytes: s.as_bytes(), pos: 0 };
    let t = T::deserialize(&mut de)?;
    if de.pos != s.len() {
        return Err(Error);
    }
    Ok(t)
}
pub fn from_slice<T: DeserializeOwned>(_: &[u8]) -> Result<T> {
    panic!("serde_json::from_slice is not modelled")
}
pub fn to_value<T: Serialize>(_t: T) -> Result<Value> {
    panic!("serde_json::to_value is not modelled")
}
pub fn from_value<T: DeserializeOwned>(_v: Value) -> Result<T> {
    Err(Error)
}

/// Result of `json!({ "k": expr })` in the model: the token text of `expr` (the wrapping
/// object is dropped consistently on the encode side; harness stand-ins decode the bare text).
pub struct RawText(pub String);
impl fmt::Display for RawText {
    fn fmt(&self, f: &mut fmt::Formatter<'_>) -> fmt::Result {
        f.write_str(&self.0)
    }
}

#[macro_export]
macro_rules! json {
    (null) => { $crate::Value::Null };
    ({ $k:literal : $v:expr }) => { $crate::RawText($crate::to_string(&$v).unwrap()) };
    ($e:expr) => { $crate::to_value(&$e).unwrap() };
}

mod token {
    use super::Error;
    use serde::de::{self, DeserializeSeed, SeqAccess, Visitor};
    use serde::ser::{self, Impossible, Serialize};

    pub struct Ser<'a> {
        pub out: &'a mut String,
    }
    pub struct Compound<'a> {
        out: &'a mut String,
    }
    impl<'a> ser::SerializeStruct for Compound<'a> {
        type Ok = ();
        type Error = Error;
        fn serialize_field<T: ?Sized + Serialize>(&mut self, _k: &'static str, v: &T) -> Result<(), Error> {
            v.serialize(Ser { out: self.out })
        }
        fn end(self) -> Result<(), Error> {
            self.out.push('}');
            Ok(())
        }
    }
    impl<'a> ser::SerializeSeq for Compound<'a> {
        type Ok = ();
        type Error = Error;
        fn serialize_element<T: ?Sized + Serialize>(&mut self, v: &T) -> Result<(), Error> {
            self.out.push(',');
            v.serialize(Ser { out: self.out })
        }
        fn end(self) -> Result<(), Error> {
            self.out.push(']');
            Ok(())
        }
    }
    impl<'a> ser::Serializer for Ser<'a> {
        type Ok = ();
        type Error = Error;
        type SerializeSeq = Compound<'a>;
        type SerializeTuple = Impossible<(), Error>;
        type SerializeTupleStruct = Impossible<(), Error>;
        type SerializeTupleVariant = Impossible<(), Error>;
        type SerializeMap = Impossible<(), Error>;
        type SerializeStruct = Compound<'a>;
        type SerializeStructVariant = Impossible<(), Error>;
        fn serialize_bool(self, v: bool) -> Result<(), Error> { self.out.push(if v { 't' } else { 'f' }); Ok(()) }
        fn serialize_i8(self, _: i8) -> Result<(), Error> { Err(Error) }
        fn serialize_i16(self, _: i16) -> Result<(), Error> { Err(Error) }
        fn serialize_i32(self, _: i32) -> Result<(), Error> { Err(Error) }
        fn serialize_i64(self, _: i64) -> Result<(), Error> { Err(Error) }
        fn serialize_u8(self, v: u8) -> Result<(), Error> { self.serialize_u64(v as u64) }
        fn serialize_u16(self, v: u16) -> Result<(), Error> { self.serialize_u64(v as u64) }
        fn serialize_u32(self, v: u32) -> Result<(), Error> { self.serialize_u64(v as u64) }
        fn serialize_u64(self, v: u64) -> Result<(), Error> {
            if v >= 10 { return Err(Error); }
            self.out.push((b'0' + v as u8) as char);
            Ok(())
        }
        fn serialize_f32(self, _: f32) -> Result<(), Error> { Err(Error) }
        fn serialize_f64(self, _: f64) -> Result<(), Error> { Err(Error) }
        fn serialize_char(self, _: char) -> Result<(), Error> { Err(Error) }
        fn serialize_str(self, _: &str) -> Result<(), Error> { Err(Error) }
        fn serialize_bytes(self, _: &[u8]) -> Result<(), Error> { Err(Error) }
        fn serialize_none(self) -> Result<(), Error> { self.out.push('n'); Ok(()) }
        fn serialize_some<T: ?Sized + Serialize>(self, v: &T) -> Result<(), Error> { self.out.push('s'); v.serialize(self) }
        fn serialize_unit(self) -> Result<(), Error> { self.out.push('n'); Ok(()) }
        fn serialize_unit_struct(self, _: &'static str) -> Result<(), Error> { self.out.push('n'); Ok(()) }
        fn serialize_unit_variant(self, _: &'static str, _: u32, _: &'static str) -> Result<(), Error> { Err(Error) }
        fn serialize_newtype_struct<T: ?Sized + Serialize>(self, _: &'static str, v: &T) -> Result<(), Error> { v.serialize(self) }
        fn serialize_newtype_variant<T: ?Sized + Serialize>(self, _: &'static str, _: u32, _: &'static str, _: &T) -> Result<(), Error> { Err(Error) }
        fn serialize_seq(self, _: Option<usize>) -> Result<Compound<'a>, Error> { self.out.push('['); Ok(Compound { out: self.out }) }
        fn serialize_tuple(self, _: usize) -> Result<Self::SerializeTuple, Error> { Err(Error) }
        fn serialize_tuple_struct(self, _: &'static str, _: usize) -> Result<Self::SerializeTupleStruct, Error> { Err(Error) }
        fn serialize_tuple_variant(self, _: &'static str, _: u32, _: &'static str, _: usize) -> Result<Self::SerializeTupleVariant, Error> { Err(Error) }
        fn serialize_map(self, _: Option<usize>) -> Result<Self::SerializeMap, Error> { Err(Error) }
        fn serialize_struct(self, _: &'static str, _: usize) -> Result<Compound<'a>, Error> { self.out.push('{'); Ok(Compound { out: self.out }) }
        fn serialize_struct_variant(self, _: &'static str, _: u32, _: &'static str, _: usize) -> Result<Self::SerializeStructVariant, Error> { Err(Error) }
    }

    pub struct De<'de> {
        pub bytes: &'de [u8],
        pub pos: usize,
    }
    impl<'de> De<'de> {
        fn peek(&self) -> Option<u8> { if self.pos < self.bytes.len() { Some(self.bytes[self.pos]) } else { None } }
        fn next(&mut self) -> Option<u8> { let b = self.peek(); if b.is_some() { self.pos += 1; } b }
    }
    struct Fields<'a, 'de> { de: &'a mut De<'de>, close: u8, sep: bool }
    impl<'a, 'de> SeqAccess<'de> for Fields<'a, 'de> {
        type Error = Error;
        fn next_element_seed<T: DeserializeSeed<'de>>(&mut self, seed: T) -> Result<Option<T::Value>, Error> {
            match self.de.peek() {
                Some(b) if b == self.close => Ok(None),
                Some(b) => {
                    if self.sep { if b != b',' { return Err(Error); } self.de.pos += 1; }
                    seed.deserialize(&mut *self.de).map(Some)
                }
                None => Err(Error),
            }
        }
    }
    impl<'a, 'de> de::Deserializer<'de> for &'a mut De<'de> {
        type Error = Error;
        fn deserialize_any<V: Visitor<'de>>(self, visitor: V) -> Result<V::Value, Error> {
            match self.peek() {
                Some(b'0'..=b'9') => { let b = self.next().unwrap(); visitor.visit_u64((b - b'0') as u64) }
                Some(b't') => { self.pos += 1; visitor.visit_bool(true) }
                Some(b'f') => { self.pos += 1; visitor.visit_bool(false) }
                Some(b'n') => { self.pos += 1; visitor.visit_unit() }
                Some(b'[') => {
                    self.pos += 1;
                    let v = visitor.visit_seq(Fields { de: &mut *self, close: b']', sep: true })?;
                    if self.next() != Some(b']') { return Err(Error); }
                    Ok(v)
                }
                Some(b'{') => {
                    self.pos += 1;
                    let v = visitor.visit_seq(Fields { de: &mut *self, close: b'}', sep: false })?;
                    if self.next() != Some(b'}') { return Err(Error); }
                    Ok(v)
                }
                _ => Err(Error),
            }
        }
        fn deserialize_newtype_struct<V: Visitor<'de>>(self, _: &'static str, visitor: V) -> Result<V::Value, Error> {
            visitor.visit_newtype_struct(self)
        }
        fn deserialize_option<V: Visitor<'de>>(self, visitor: V) -> Result<V::Value, Error> {
            match self.peek() {
                Some(b'n') => { self.pos += 1; visitor.visit_none() }
                Some(b's') => { self.pos += 1; visitor.visit_some(self) }
                _ => Err(Error),
            }
        }
        serde::forward_to_deserialize_any! {
            bool i8 i16 i32 i64 i128 u8 u16 u32 u64 u128 f32 f64 char str string bytes byte_buf
            unit unit_struct seq tuple tuple_struct map struct enum identifier ignored_any
        }
    }
}
