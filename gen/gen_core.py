#!/usr/bin/env python3
"""Generates /verif/kani/core/src/h/c01_gen.rs: one Kani harness per (shape, kinds, operation, key).

Every harness builds its pre-state by a *literal* nested constructor expression (concrete shape, symbolic
content) and compares every read the store offers with a reference computed here. (A generic builder
that walks a table at verification time was measured 4x slower and 10x more memory: CBMC folds literal
construction, not table-driven construction.)

Menu of keys: a, b, a/a, a/b, b/a, b/b  (alphabet {a,b}, depth <= 2).
"""
import itertools, os, sys

M = ["a", "b", "a/a", "a/b", "b/a", "b/b"]
OUT = os.path.join(os.path.dirname(os.path.abspath(__file__)), "..", "kani", "core", "src", "h", "c01_gen.rs")


def keylit(k):
    return "[" + ", ".join(f's("{x}")' for x in k.split("/")) + "]"


def kid(k):
    return k.replace("/", "")


def nexpr(val, kids):
    """kids: list of (name, expr)"""
    if not kids:
        return f"n0({val})"
    if len(kids) == 1:
        return f'n1({val}, "{kids[0][0]}", {kids[0][1]})'
    return f'n2({val}, "{kids[0][0]}", {kids[0][1]}, "{kids[1][0]}", {kids[1][1]})'


def build_expr(shape):
    """shape: dict key -> 'p' | 'c' ; returns Rust expr for the root StoreNode (literal, Vec-free)"""
    tops = []
    for f in ("a", "b"):
        kids = [(c, f"n0(Some(e_{kid(f + '/' + c)}.entry()))") for c in ("a", "b") if f"{f}/{c}" in shape]
        if f not in shape and not kids:
            continue
        val = f"Some(e_{kid(f)}.entry())" if f in shape else "None"
        tops.append((f, nexpr(val, kids)))
    return nexpr("None", tops)


def shape_name(shape):
    return "_".join(kid(k) + shape[k] for k in M if k in shape) or "empty"


def gen_step(shape, op, key, tier):
    """op in set,cset,delete"""
    name = f"c01_{shape_name(shape)}__{op}_{kid(key)}"
    L = []
    a = L.append
    pre = shape.get(key)
    desc = f"{op} {key} on shape {{{', '.join(k + ':' + ('cas' if shape[k]=='c' else 'plain') for k in M if k in shape)}}}, then every get/cget/ls/len compared with the reference"
    a(f'// @h props=C01,C05,C17 tier={tier} cap=300 desc="{desc}" bounds="keys over {{a,b}} depth<=2; values Bool; versions u64"')
    a("#[kani::proof]")
    a("#[kani::unwind(4)]")
    a(f"fn {name}() {{")
    for k in M:
        if k in shape:
            a(f"    let e_{kid(k)} = E::any({'true' if shape[k]=='c' else 'false'});")
    a(f"    let data = {build_expr(shape)};")
    a(f"    let mut store = Store {{ data, len: {len(shape)}, ..Default::default() }};")
    a(f"    let key = {keylit(key)};")
    a("    let nb: bool = kani::any();")
    cur = f"e_{kid(key)}.cur()" if pre else "0u64"
    post = {k: ("true", f"e_{kid(k)}") for k in shape}   # key -> (presence expr, entry expr)
    if op == "set":
        a("    let res = store.insert_plain(&key, Value::Bool(nb), false);")
        a("    let ok = res.is_ok();")
        if pre == "c":
            a('    assert!(!ok, "C01: set on a CAS-protected key is rejected");')
        else:
            a('    assert!(ok, "C01: set on an absent or plain key is accepted");')
            post[key] = ("true", "E { cas: false, b: nb, ver: 0 }")
        a("    kani::cover!(true);")
    elif op == "cset":
        a("    let nv: u64 = kani::any();")
        a(f"    let cur: u64 = {cur};")
        a("    let res = store.insert_cas(&key, Value::Bool(nb), nv, false);")
        a("    let ok = res.is_ok();")
        a('    assert!(ok == (nv == cur && cur < u64::MAX), "C01: cset accepted iff it carries the current version");')
        a("    kani::cover!(ok);")
        a("    kani::cover!(!ok);")
        if pre:
            post[key] = ("true", f"(if ok {{ E {{ cas: true, b: nb, ver: cur + 1 }} }} else {{ e_{kid(key)} }})")
        else:
            post[key] = ("ok", "E { cas: true, b: nb, ver: cur + 1 }")
    elif op == "delete":
        a("    let res = store.delete(&key);")
        if pre:
            a(f'    assert!(matches!(&res, Ok(Some((v, _))) if e_{kid(key)}.is(Some(v))), "C01: delete returns the value that was stored");')
            del post[key]
        else:
            a('    assert!(matches!(&res, Ok(None)), "C01: delete of an absent key reports that nothing was there");')
        a("    kani::cover!(true);")
    a("    core::mem::forget(res);")
    # ---- read-back of every menu key
    for k in M:
        if k in post:
            pres, ent = post[k]
            if pres == "true":
                a(f"    check_present(&store, &{keylit(k)}, &{ent});")
            else:
                a(f"    if {pres} {{ check_present(&store, &{keylit(k)}, &{ent}); }} else {{ check_absent(&store, &{keylit(k)}); }}")
        else:
            a(f"    check_absent(&store, &{keylit(k)});")
    def P(k):
        return post[k][0] if k in post else "false"
    cnt = " + ".join(f"({P(k)}) as usize" for k in M)
    a(f'    assert!(store.len() == {cnt}, "C01: entry count equals the number of stored values");')
    below = {f: " || ".join(f"({P(k)})" for k in (f, f + "/a", f + "/b")) for f in ("a", "b")}
    a(f"    check_ls_root(&store, {below['a']}, {below['b']});")
    for f in ("a", "b"):
        a(f'    check_ls(&store, "{f}", {below[f]}, {P(f + "/a")}, {P(f + "/b")});')
    a('    assert!(store.data.is_empty() || store.data.is_clean(), "C17: tree is clean (no empty branches) after the operation");')
    a("    core::mem::forget(store);")
    a("}")
    return name, "\n".join(L)


def shapes():
    """(shape, tier)"""
    out = []
    def add(d, tier):
        out.append((d, tier))
    add({}, "quick")
    add({"a": "p"}, "quick")
    add({"a": "c"}, "quick")
    add({"a": "p", "a/b": "c"}, "quick")
    add({"a": "c", "a/b": "p"}, "thorough")
    add({"a/b": "p"}, "quick")
    add({"a/b": "c"}, "thorough")
    add({"a": "p", "b": "c"}, "thorough")
    add({"a/a": "c", "a/b": "p"}, "quick")
    add({"a": "c", "a/b": "p", "b": "p"}, "thorough")
    add({"a/b": "c", "b/a": "p"}, "thorough")
    return out


# ----------------------------------------------------------------------------- C04 wildcard relation
SEGS = ["a", "b", "?", "#"]


def patterns(maxlen=2):
    out = []
    for n in range(1, maxlen + 1):
        for p in itertools.product(SEGS, repeat=n):
            out.append(list(p))
    return out


def legal(p):
    return "#" not in p[:-1]


def ref_match(p, k):
    """documented relation (README 8-10): ? = exactly one level, trailing # = the remaining levels (at least one)"""
    for i, seg in enumerate(p):
        if seg == "#":
            return len(k) > i
        if i >= len(k):
            return False
        if seg != "?" and seg != k[i]:
            return False
    return len(k) == len(p)


def store_rel_extra(p, k):
    """the store additionally matches K for pattern K/# (known finding)"""
    return p[-1] == "#" and len(p) >= 2 and len(k) == len(p) - 1 and ref_match(p[:-1], k)


def patlit(p):
    m = {"?": "KeySegment::Wildcard", "#": "KeySegment::MultiWildcard"}
    return "[" + ", ".join(m.get(x, f'KeySegment::Regular(s("{x}"))') for x in p) + "]"


def pname(p):
    return "_".join({"?": "q", "#": "h"}.get(x, x) for x in p)


def gen_c04_store(shape, p, op, tier):
    name = f"c04_{shape_name(shape)}__{op}_{pname(p)}"
    L = []
    a = L.append
    pstr = "/".join(p)
    what = "pget" if op == "get" else "pdelete"
    a(f'// @h props=C04,C17 tier={tier} cap=400 desc="{what} {pstr} on shape {{{", ".join(k for k in M if k in shape)}}}: result set equals the documented wildcard relation; values as stored" bounds="pattern {pstr}; keys over {{a,b}} depth<=2; values Bool; versions u64"')
    a("#[kani::proof]")
    a("#[kani::unwind(4)]")
    if not legal(p):
        # the rejection builds its message with format!: formatting gets an empty body (it is not the subject)
        a("#[kani::stub(std::fmt::format, stub_format)]")
    a(f"fn {name}() {{")
    for k in M:
        if k in shape:
            a(f"    let e_{kid(k)} = E::any({'true' if shape[k]=='c' else 'false'});")
    a(f"    let data = {build_expr(shape)};")
    a(f"    let mut store = Store {{ data, len: {len(shape)}, ..Default::default() }};")
    a(f"    let pat = {patlit(p)};")
    if op == "get":
        a("    let res = store.get_matches(&pat);")
    else:
        a("    let res = store.delete_matches(&pat).map(|r| { core::mem::forget(r.1); r.0 });")
    if not legal(p):
        a('    assert!(res.is_err(), "C04: a multi-level wildcard that is not the last segment is rejected");')
        a("    kani::cover!(res.is_err());")
        a("    core::mem::forget(res);")
        # rejected request changes nothing
        for k in M:
            if k in shape:
                a(f"    check_present(&store, &{keylit(k)}, &e_{kid(k)});")
        a(f'    assert!(store.len() == {len(shape)}, "C01: a rejected request changes nothing");')
    else:
        a("    let g = match res { Ok(g) => g, Err(_) => { assert!(false, \"C04: a legal pattern is not rejected\"); return; } };")
        expected = [k for k in M if k in shape and ref_match(p, k.split("/"))]
        extra = [k for k in M if k in shape and store_rel_extra(p, k.split("/"))]
        for k in M:
            if k not in shape:
                continue
            if k in expected:
                a(f'    assert!(kv_has(&g, "{k}", &e_{kid(k)}), "C04: key matched by the pattern is returned with its stored value");')
            elif k in extra:
                a(f'    assert!(!kv_has_key(&g, "{k}"), "[KF-C04-hash-matches-prefix] C04: pattern K/# must not match the key K itself (documented: only keys that start with K/)");')
            else:
                a(f'    assert!(!kv_has_key(&g, "{k}"), "C04: key not matched by the pattern is not returned");')
        if extra:
            a(f'    assert!(g.len() == {len(expected)} || g.len() == {len(expected) + len(extra)}, "C04: nothing but matching keys is returned (count)");')
        else:
            a(f'    assert!(g.len() == {len(expected)}, "C04: nothing but matching keys is returned (count)");')
        a("    kani::cover!(true);")
        a("    core::mem::forget(g);")
        if op == "delete":
            # removed iff matched (by the store's own relation), everything else still there
            for k in M:
                if k not in shape:
                    continue
                if k in expected:
                    a(f"    check_absent(&store, &{keylit(k)});")
                elif k in extra:
                    pass  # covered by the known-finding assertion above
                else:
                    a(f"    check_present(&store, &{keylit(k)}, &e_{kid(k)});")
            if not extra:
                a(f'    assert!(store.len() == {len(shape) - len(expected)}, "C01: entry count after pdelete");')
            a('    assert!(store.data.is_empty() || store.data.is_clean(), "C17: tree is clean (no empty branches) after pdelete");')
        else:
            for k in M:
                if k in shape:
                    a(f"    check_present(&store, &{keylit(k)}, &e_{kid(k)});")
    a("    core::mem::forget(pat);")
    a("    core::mem::forget(store);")
    a("}")
    return name, "\n".join(L)


def gen_c04_subs(p, tier):
    name = f"c04_subs__{pname(p)}"
    L = []
    a = L.append
    pstr = "/".join(p)
    a(f'// @h props=C04,C03 tier={tier} cap=400 desc="subscriber of pattern {pstr}: notified for a key iff the documented relation holds, for every key of the menu" bounds="pattern {pstr}; keys a,b,a/a,a/b,b/a,b/b; 1 subscriber"')
    a("#[kani::proof]")
    a("#[kani::unwind(4)]")
    a(f"fn {name}() {{")
    a("    let mut subs = Subscribers::default();")
    a(f"    let pat = {patlit(p)};")
    a("    let (tx, rx) = tokio::sync::mpsc::channel::<worterbuch_common::PStateEvent>(1);")
    a("    let unique: bool = kani::any();")
    a("    let tid: u64 = kani::any();")
    a("    let id = SubscriptionId::new(cid(1), tid);")
    a("    subs.add_subscriber(&pat, Subscriber::new(id, Vec::new(), EventSender::PState(tx), unique));")
    for k in M:
        exp = ref_match(p, k.split("/"))
        a(f"    let v = subs.get_subscribers(&{keylit(k)});")
        a(f'    assert!(v.len() == {1 if exp else 0}, "C04: subscriber of {pstr} is {"" if exp else "not "}notified for key {k}");')
        a("    core::mem::forget(v);")
    a("    kani::cover!(true);")
    a("    core::mem::forget(subs);")
    a("    core::mem::forget(rx);")
    a("    core::mem::forget(pat);")
    a("}")
    return name, "\n".join(L)


def gen_c04_subs2(p, tier):
    """pattern subscriber p plus a second, literal subscriber of a/a (a literal sibling must not shadow a wildcard)"""
    name = f"c04_subs2__{pname(p)}"
    L = []
    a = L.append
    pstr = "/".join(p)
    a(f'// @h props=C04,C03 tier={tier} cap=400 desc="subscriber of pattern {pstr} next to a literal subscriber of a/a: each is notified for exactly its own keys, for every key of the menu" bounds="pattern {pstr}; keys a,b,a/a,a/b,b/a,b/b; 2 subscribers"')
    a("#[kani::proof]")
    a("#[kani::unwind(4)]")
    a(f"fn {name}() {{")
    a("    let mut subs = Subscribers::default();")
    a(f"    let pat = {patlit(p)};")
    a('    let lit = [KeySegment::Regular(s("a")), KeySegment::Regular(s("a"))];')
    a("    let (tx, rx) = tokio::sync::mpsc::channel::<worterbuch_common::PStateEvent>(1);")
    a("    let (tx2, rx2) = tokio::sync::mpsc::channel::<worterbuch_common::PStateEvent>(1);")
    a("    subs.add_subscriber(&pat, Subscriber::new(SubscriptionId::new(cid(1), 1), Vec::new(), EventSender::PState(tx), false));")
    a("    subs.add_subscriber(&lit, Subscriber::new(SubscriptionId::new(cid(2), 2), Vec::new(), EventSender::PState(tx2), false));")
    for k in M:
        exp = (1 if ref_match(p, k.split("/")) else 0) + (1 if k == "a/a" else 0)
        a(f"    let v = subs.get_subscribers(&{keylit(k)});")
        a(f'    assert!(v.len() == {exp}, "C04: for key {k} exactly the subscribers whose pattern matches are notified ({pstr} and the literal a/a)");')
        a("    core::mem::forget(v);")
    a("    kani::cover!(true);")
    a("    core::mem::forget(subs);")
    a("    core::mem::forget(rx);")
    a("    core::mem::forget(rx2);")
    a("    core::mem::forget(pat);")
    a("    core::mem::forget(lit);")
    a("}")
    return name, "\n".join(L)


def main_c04():
    out_store = os.path.join(os.path.dirname(OUT), "c04_gen.rs")
    out_subs = os.path.join(os.path.dirname(OUT), "c04_subs_gen.rs")
    parts = ["// @module store::h", "// GENERATED by /verif/gen/gen_core.py - do not edit by hand.", ""]
    n = {"quick": 0, "thorough": 0}
    sh = [({"a": "p", "a/b": "c", "b": "p"}, "quick"), ({"a/a": "c", "a/b": "p", "b/a": "p"}, "thorough"), ({"a": "c", "b/b": "p"}, "thorough")]
    quick_pats = {"a", "?", "#", "a/b", "a/?", "a/#", "?/b", "?/?", "?/#", "#/a", "b/#"}
    for shape, stier in sh:
        for p in patterns(2):
            for op in ("get", "delete"):
                tier = stier if "/".join(p) in quick_pats else "thorough"
                name, code = gen_c04_store(shape, p, op, tier)
                parts.append(code)
                parts.append("")
                n[tier] += 1
    open(out_store, "w").write("\n".join(parts))
    parts = ["// @module subscribers::h", "// GENERATED by /verif/gen/gen_core.py - do not edit by hand.", ""]
    for p in patterns(2):
        if not legal(p):
            continue
        tier = "quick"
        name, code = gen_c04_subs(p, tier)
        parts.append(code)
        parts.append("")
        n[tier] += 1
    for p in patterns(2):
        if not legal(p):
            continue
        tier = "quick" if "/".join(p) in ("?", "#", "a/?", "?/a", "?/b", "a/#", "?/?", "a/a") else "thorough"
        name, code = gen_c04_subs2(p, tier)
        parts.append(code)
        parts.append("")
        n[tier] += 1
    open(out_subs, "w").write("\n".join(parts))
    print(f"generated C04 {n}")


# ----------------------------------------------------------------------------- C15 containment
def keys_upto(depth, alphabet=("a", "b")):
    out = []
    for n in range(1, depth + 1):
        for k in itertools.product(alphabet, repeat=n):
            out.append(list(k))
    return out


def store_rel(p, k):
    """the relation the store answers with (documented relation + the K/# quirk)"""
    return ref_match(p, k) or store_rel_extra(p, k)


def main_c15():
    out = os.path.join(os.path.dirname(OUT), "..", "..", "..", "auth", "src", "h", "c15_gen.rs")
    pats = [p for p in patterns(3) if legal(p)]
    keys = keys_upto(4)
    parts = ["// @module auth::h", "// GENERATED by /verif/gen/gen_core.py - do not edit by hand.",
             "// C15 (a)  containment: whenever auth::pattern_matches(grant, request) says yes, every key the REQUEST can",
             "// return / change / remove (relation of the store, C04) is covered by the GRANT. Both are concrete strings from",
             "// the menu of all legal patterns of <= 3 segments over {a,b,?,#} (84 x 84 pairs, one harness per grant); the",
             "// reference 'is the request contained in the grant' is computed by the generator over all keys of depth <= 4.", ""]
    n = 0
    for g in pats:
        bad = [r for r in pats if any(store_rel(r, k) and not store_rel(g, k) for k in keys)]
        good = [r for r in pats if r not in bad]
        name = "c15_contain__" + pname(g)
        tier = "quick" if "/".join(g) in ("a", "?", "a/?", "a/#", "?/b", "b/a") else "thorough"
        L = []
        if not bad:
            # the grant covers everything: nothing to refuse; keep a reachability witness only
            L.append(f'// @h props=C15 tier={tier} cap=600 desc="grant {"/".join(g)} covers every request of the menu: witness that contained requests are accepted" bounds="3 requests"')
            L.append("#[kani::proof]")
            L.append("#[kani::unwind(6)]")
            L.append(f"fn {name}() {{")
            L.append(f'    let grant = "{"/".join(g)}";')
            L.append("    kani::cover!(" + " && ".join(f'pattern_matches(grant, "{"/".join(r)}")' for r in good[:3]) + ");")
            L.append("}")
            parts.append("\n".join(L))
            parts.append("")
            n += 1
            continue
        L.append(f'// @h props=C15,C17 tier={tier} cap=900 desc="grant {"/".join(g)}: pattern_matches refuses every request pattern that can reach a key the grant does not cover ({len(bad)} requests), accepts some contained one" bounds="requests: all legal patterns of <= 3 segments; keys of depth <= 4 (generator)"')
        L.append("#[kani::proof]")
        L.append("#[kani::unwind(6)]")
        L.append(f"fn {name}() {{")
        L.append(f'    let grant = "{"/".join(g)}";')
        L.append("    let sel: u8 = kani::any();")
        L.append(f"    kani::assume((sel as usize) < {len(bad)});")
        L.append("    // the solver picks the request; each branch calls the matcher with a concrete string")
        for i, r in enumerate(bad):
            kw = "if" if i == 0 else "} else if"
            L.append(f'    {kw} sel == {i} {{')
            L.append(f'        assert!(!pattern_matches(grant, "{"/".join(r)}"), "C15: request {"/".join(r)} reaches keys that grant {"/".join(g)} does not cover, it must not be authorized");')
        if bad:
            L.append("    }")
        if good:
            L.append("    kani::cover!(" + " || ".join(f'pattern_matches(grant, "{"/".join(r)}")' for r in good[:3]) + ");")
        L.append("}")
        parts.append("\n".join(L))
        parts.append("")
        n += 1
    open(out, "w").write("\n".join(parts))
    print(f"generated C15 containment harnesses: {n}")


def main():
    main_c04()
    main_c15()
    parts = ["// @module store::h", "// GENERATED by /verif/gen/gen_core.py - do not edit by hand.", ""]
    n = {"quick": 0, "thorough": 0}
    for shape, stier in shapes():
        keys = ["a", "b", "a/b", "b/a"]
        for op in ("set", "cset", "delete"):
            for key in keys:
                # quick tier: a representative subset, everything else is thorough
                tier = stier
                if stier == "quick":
                    inner = any(k.startswith(key + "/") for k in shape)   # absent key whose node exists
                    interesting = (key in shape) or key in ("b/a", "a/b") or inner
                    if not interesting:
                        tier = "thorough"
                    if op == "delete" and key not in shape:
                        tier = "thorough"
                name, code = gen_step(shape, op, key, tier)
                parts.append(code)
                parts.append("")
                n[tier] += 1
    open(OUT, "w").write("\n".join(parts))
    print(f"generated {n} harnesses -> {os.path.normpath(OUT)}")


if __name__ == "__main__":
    main()
