#!/usr/bin/env python3
"""Item slicer: copies named top-level items VERBATIM (brace-matched text, with their attributes and doc
comments) out of a source file of /repo that cannot be included as a whole (it declares `mod` trees, pulls
in clap / axum / sockets ...). A missing item is an error (exit 2) - never a silent skip.

spec file: one line per item:   <source path> :: <item head>
  <item head> is the beginning of the item's first line without attributes and leading `pub`, e.g.
  `fn quorum_sanity_check`, `struct Peers`, `impl Peers`, `enum PeerMessage`, `impl Ord for Priority`.
usage: slice.py <spec> <out.rs>
"""
import hashlib, re, sys


def find_item(text, head):
    pat = re.compile(r"^(?:pub(?:\([a-z]+\))?\s+)?(?:async\s+)?" + re.escape(head) + r"\b", re.M)
    m = pat.search(text)
    if not m:
        return None
    start = m.start()
    # include directly preceding attribute / doc-comment lines
    lines_before = text[:start].split("\n")
    i = len(lines_before) - 2   # last element is "" (start of the item's line)
    while i >= 0 and re.match(r"\s*(#\[|///|//!)", lines_before[i]):
        i -= 1
    start = len("\n".join(lines_before[: i + 1])) + (1 if i >= 0 else 0)
    # end: first `;` at depth 0 (tuple struct / unit) or the matching brace of the first `{`
    depth = 0
    j = m.end()
    seen_brace = False
    while j < len(text):
        c = text[j]
        if c == '"':
            j += 1
            while j < len(text) and text[j] != '"':
                if text[j] == "\\":
                    j += 1
                j += 1
        elif c == "/" and text[j:j + 2] == "//":
            j = text.index("\n", j)
        elif c in "{([":
            depth += 1
            if c == "{":
                seen_brace = True
        elif c in "})]":
            depth -= 1
            if depth == 0 and c == "}" and seen_brace:
                return text[start:j + 1]
        elif c == ";" and depth == 0:
            return text[start:j + 1]
        j += 1
    return None


def main():
    spec, out = sys.argv[1], sys.argv[2]
    parts = []
    cache = {}
    for line in open(spec):
        line = line.strip()
        if not line or line.startswith("#"):
            continue
        src, head = [x.strip() for x in line.split("::", 1)]
        text = cache.setdefault(src, open(src).read())
        item = find_item(text, head)
        if item is None:
            print(f"slice.py: item `{head}` not found in {src}", file=sys.stderr)
            sys.exit(2)
        parts.append(f"// ---- sliced verbatim from {src}: `{head}` (sha256 of the slice {hashlib.sha256(item.encode()).hexdigest()[:16]})\n{item}\n")
    new = "\n".join(parts)
    try:
        old = open(out).read()
    except OSError:
        old = None
    if old != new:
        open(out, "w").write(new)


if __name__ == "__main__":
    main()
