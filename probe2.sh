#!/bin/bash
# like probe.sh but with the long-string unwindset
crate=$1; slot=$2; h=$3; mem=${4:-12}; to=${5:-300}
cd /verif/kani/$crate; [ -f deasync.list ] && python3 /verif/gen/deasync.py gen $(cat deasync.list)
export CARGO_NET_OFFLINE=true
( ulimit -v $((mem*1024*1024)); /usr/bin/time -f "WALL %e s MAXRSS %M KB" timeout -k 5 $to cargo kani --target-dir /verif/target/$crate-$slot -Z unstable-options -Z stubbing --no-memory-safety-checks --no-assertion-reach-checks --harness $h --cbmc-args --unwindset _RNvNtCs8nBE2WEn0aJ_4uuid3fmt17format_hyphenatedCs83c4U9D6Jpy_3vwb.0:80,_RNvNtCs8nBE2WEn0aJ_4uuid3fmt17format_hyphenatedCs83c4U9D6Jpy_3vwb.1:80,_RNvNtNtCs8xvirJzNMvV_4core5slice6memchr6memchrCs83c4U9D6Jpy_3vwb.0:80,_RNvXs_NtNtCs8xvirJzNMvV_4core3str7patternNtB4_12CharSearcherNtB4_8Searcher10next_matchCs83c4U9D6Jpy_3vwb.0:80,memcmp.0:80 --max-field-sensitivity-array-size 1024 ) > /verif/logs/probe-$h.log 2>&1
grep -E "^Runtime Symex|VCC|^VERIFICATION|out of memory|Failed Checks|WALL|^error" /verif/logs/probe-$h.log | head -12
